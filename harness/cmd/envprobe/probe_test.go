// Package envprobe is a test binary only because test binaries carry the Go runtime's own monitor of
// environment reads: with -test.testlogfile=F every os.Getenv / os.LookupEnv (and file open/stat) made by the
// process is written to F. TestBaseline touches nothing of the library; TestProbe drives every exported
// entry point of the library once. The difference between the two logs is the set of environment variables
// the library consults - the names C15 and C18 then vary.
package envprobe

import (
	"strings"
	"testing"

	spg "go.1password.io/spg"
)

func TestBaseline(t *testing.T) {}

func TestProbe(t *testing.T) {
	defer func() { recover() }()
	words := []string{"iris", "island", "apple", "Polish", "polish", "4", "éclair", "x-ray"}
	wl, err := spg.NewWordList(words)
	if err != nil {
		t.Skip(err)
	}
	for _, sch := range []spg.CapScheme{spg.CSNone, spg.CSFirst, spg.CSAll, spg.CSRandom, spg.CSOne, "Title"} {
		for _, sf := range []spg.SFFunction{nil, spg.SFNone, spg.SFDigits1, spg.SFDigits2, spg.SFSymbols, spg.SFDigitsSymbols, spg.SFDigitsNoAmbiguous1, spg.SFDigitsNoAmbiguous2,
			spg.NewSFFunction(spg.CharRecipe{Length: 2, AllowChars: "xy", RequireSets: []string{"x"}})} {
			r := spg.NewWLRecipe(3, wl)
			r.Capitalize = sch
			r.SeparatorChar = "-"
			r.SeparatorFunc = sf
			func() {
				defer func() { recover() }()
				r.Entropy()
				r.Size()
				if p, err := r.Generate(); err == nil && p != nil {
					ts := p.Tokens()
					ts.Atoms()
					ts.Separators()
					if ti, err := ts.MakeIndices(); err == nil {
						spg.Tokenize(p.String(), ti, p.Entropy)
					}
					_ = p.String()
				}
			}()
		}
	}
	for _, c := range []spg.CharRecipe{
		*spg.NewCharRecipe(12),
		{Length: 6, Allow: spg.Letters, Require: spg.Digits | spg.Symbols, Exclude: spg.Ambiguous},
		{Length: 4, AllowChars: "abcé", RequireSets: []string{"a", "bé"}, ExcludeChars: "c"},
		{Length: 1, AllowChars: "b", RequireSets: []string{"a", "c"}}, // refused
		{Length: 3}, // empty alphabet
		{Length: 0, Allow: spg.All},
	} {
		func() {
			defer func() { recover() }()
			c.Alphabet()
			c.Entropy()
			c.SuccessProbability()
			c.Generate()
		}()
	}
	old1, old2 := spg.MaxTrials, spg.MaxFailRate
	spg.MaxTrials, spg.MaxFailRate = 2, 1
	func() {
		defer func() { recover() }()
		for i := 0; i < 20; i++ {
			spg.CharRecipe{Length: 2, AllowChars: "ab", RequireSets: []string{"a", "b"}}.Generate()
		}
	}()
	spg.MaxTrials, spg.MaxFailRate = old1, old2
	spg.NewWordList([]string{"dup", "dup", strings.Repeat("w", 300)})
	spg.NewWordList(nil)
}
