// vcheck is the parent/worker binary of the runtime-monitoring harness.
//
//	vcheck run <ID> <quick|thorough>     parent: schedules cases over worker processes, runs the
//	                                     offline monitors, writes evidence, prints verdict lines
//	vcheck worker <ID> <tier> <seed> <dir> <k>   worker: executes cases named on stdin, one result line each on fd 3
//	vcheck replay <file>                 re-executes the case a replay file names, in-process
//
// Exit status: 0 held on everything observed, 1 violation, 2 inconclusive / infrastructure.
package main

import (
	"bufio"
	"encoding/binary"
	"encoding/json"
	"fmt"
	"os"
	"os/exec"
	"path/filepath"
	"runtime"
	"runtime/debug"
	"sort"
	"strconv"
	"strings"
	"sync"
	"time"

	"verifharness/gen"
	"verifharness/tape"
)

// Violation is one refutation observed by a monitor.
type Violation struct {
	Class  string      `json:"class"` // what failed + on which kind of input; matched against known_findings.json
	Msg    string      `json:"msg"`
	Detail interface{} `json:"detail,omitempty"`
}

// CaseOut is what a worker reports for one case.
type CaseOut struct {
	Case         int                 `json:"case"`
	Execs        int64               `json:"execs"`
	Counters     map[string]int64    `json:"counters,omitempty"`
	Violations   []Violation         `json:"violations,omitempty"`
	Samples      []interface{}       `json:"samples,omitempty"`
	Inconclusive string              `json:"inconclusive,omitempty"`
	Notes        []string            `json:"notes,omitempty"`
	Keys         map[string][]uint64 `json:"keys,omitempty"` // small distinct-sets shipped inline
	Blob         map[string]string   `json:"blob,omitempty"` // free-form data for the parent's offline monitors
	// Poisoned: the case left the worker process in a state no further case should run in (a call of the code
	// under test never returned); the parent retires the worker after this result
	Poisoned bool `json:"poisoned,omitempty"`
}

// Ctx is handed to a case.
type Ctx struct {
	Prop    *Prop
	Tier    string
	Seed    uint64
	Case    int
	R       *gen.R
	Dir     string // scratch directory of this run
	Verbose bool
	out     CaseOut
	keys    map[string]map[uint64]struct{}
}

func (c *Ctx) Thorough() bool { return c.Tier == "thorough" }
func (c *Ctx) Exec(n int)     { c.out.Execs += int64(n) }
func (c *Ctx) Count(name string, d int64) {
	if c.out.Counters == nil {
		c.out.Counters = map[string]int64{}
	}
	c.out.Counters[name] += d
}

// Max keeps the maximum under a counter whose name starts with "max_".
func (c *Ctx) Max(name string, v int64) {
	if c.out.Counters == nil {
		c.out.Counters = map[string]int64{}
	}
	if v > c.out.Counters[name] {
		c.out.Counters[name] = v
	}
}

// Distinct records a key in a named distinct-set; the set "nontrivial" is what
// the evidence reports as distinct_nontrivial.
func (c *Ctx) Distinct(set, key string) {
	m := c.keys[set]
	if m == nil {
		m = map[uint64]struct{}{}
		c.keys[set] = m
	}
	m[gen.Hash64(key)] = struct{}{}
}

func (c *Ctx) Violate(class, msg string, detail interface{}) {
	if len(c.out.Violations) < 20 {
		c.out.Violations = append(c.out.Violations, Violation{class, msg, detail})
	}
	if c.Verbose {
		b, _ := json.Marshal(detail)
		fmt.Printf("  violation class=%s: %s\n    detail=%s\n", class, msg, b)
	}
}

func (c *Ctx) Sample(v interface{}) {
	if len(c.out.Samples) < 2 {
		c.out.Samples = append(c.out.Samples, v)
	}
}

func (c *Ctx) Note(s string) {
	if len(c.out.Notes) < 5 {
		c.out.Notes = append(c.out.Notes, s)
	}
	if c.Verbose {
		fmt.Println("  note:", s)
	}
}

func (c *Ctx) Inconclusive(reason string) {
	if c.out.Inconclusive == "" {
		c.out.Inconclusive = reason
	}
}

// Poison asks the parent to retire this worker process once the case has reported.
func (c *Ctx) Poison() { c.out.Poisoned = true }

func (c *Ctx) Blob(k, v string) {
	if c.out.Blob == nil {
		c.out.Blob = map[string]string{}
	}
	c.out.Blob[k] = v
}

// Agg is the parent's aggregate over all case results.
type Agg struct {
	Prop       *Prop
	Tier       string
	Seed       uint64
	Dir        string
	Cases      int
	Execs      int64
	Counters   map[string]int64
	Keys       map[string]map[uint64]struct{}
	Violations []struct {
		Case int
		V    Violation
	}
	Samples      []interface{}
	Inconclusive []string
	Notes        []string
	Blobs        map[int]map[string]string
	Extra        map[string]interface{} // additional coverage keys for the evidence
}

func (a *Agg) Violate(caseNo int, class, msg string, detail interface{}) {
	a.Violations = append(a.Violations, struct {
		Case int
		V    Violation
	}{caseNo, Violation{class, msg, detail}})
}

// Prop describes how one property is decided.
type Prop struct {
	ID          string
	Level       string // evidence level
	Rule        string
	Assumptions []string
	MinEvals    int64 // a run that observed fewer executions is inconclusive
	// NumCases gives the length of the case list for (tier, seed).
	NumCases func(tier string, seed uint64) int
	// RunCase executes case i inside a worker.
	RunCase func(c *Ctx)
	// Cost is the number of scheduler slots (of 16) case i occupies; nil = 1.
	Cost func(tier string, seed uint64, i int) int
	// Post runs in the parent after all cases: offline monitors over the aggregate.
	Post func(a *Agg)
	// CrashIsViolation: a worker dying inside a case refutes the property (no-panic properties).
	CrashIsViolation bool
	// CaseTimeout in seconds (watchdog; firing is inconclusive). 0 = default.
	CaseTimeout int
	// Exhaustive: the case list enumerates a finite space completely.
	Exhaustive bool
}

var props = map[string]*Prop{}

func register(p *Prop) { props[p.ID] = p }

func seedFromEnv() uint64 {
	s := os.Getenv("VERIF_SEED")
	if s == "" {
		return 1
	}
	v, err := strconv.ParseUint(s, 10, 64)
	if err != nil {
		v = gen.Hash64(s)
	}
	return v
}

func verifRoot() string {
	if v := os.Getenv("VERIF_ROOT"); v != "" {
		return v
	}
	return "/verif"
}

// outRoot is where evidence and replay files go: /verif for the registered
// commands, a side directory when the checks are pointed at a scratch worktree.
func outRoot() string {
	if v := os.Getenv("VERIF_OUT"); v != "" {
		return v
	}
	return verifRoot()
}

// repoRoot is the repository the harness was built against (for its data files).
func repoRoot() string {
	if v := os.Getenv("VERIF_REPO"); v != "" {
		return v
	}
	return "/repo"
}

func main() {
	if len(os.Args) < 2 {
		fmt.Fprintln(os.Stderr, "usage: vcheck run|worker|replay ...")
		os.Exit(2)
	}
	switch os.Args[1] {
	case "run":
		if len(os.Args) < 4 {
			fmt.Fprintln(os.Stderr, "usage: vcheck run <ID> <tier>")
			os.Exit(2)
		}
		os.Exit(runParent(os.Args[2], os.Args[3]))
	case "worker":
		runWorker(os.Args[2:])
	case "replay":
		os.Exit(runReplay(os.Args[2]))
	default:
		fmt.Fprintln(os.Stderr, "unknown sub-command")
		os.Exit(2)
	}
}

// ---------------------------------------------------------------------------
// worker

func newCtx(p *Prop, tier string, seed uint64, i int, dir string) *Ctx {
	return &Ctx{Prop: p, Tier: tier, Seed: seed, Case: i, Dir: dir,
		R: gen.New(seed, p.ID, tier, i), keys: map[string]map[uint64]struct{}{}, out: CaseOut{Case: i}}
}

// runCaseProtected runs the case and turns harness-level panics into an
// inconclusive result (panics of the code under test are recovered and judged
// inside the monitors, never here).
func runCaseProtected(c *Ctx) {
	allowInvalidUTF8 = c.Prop.ID != "C09" && c.Prop.ID != "C15"
	// the number of processors is part of the environment: results must not depend on it
	if c.Prop.ID != "C14" {
		procs := []int{1, 2, 3, 5, 6, 7, 4, 16, 11}[c.Case%9]
		defer runtime.GOMAXPROCS(runtime.GOMAXPROCS(procs))
	}
	defer func() {
		tape.Restore()
		if r := recover(); r != nil {
			if lf, ok := r.(tape.LearnFailure); ok {
				c.Inconclusive("cannot script draws: " + lf.Error())
				return
			}
			c.Inconclusive(fmt.Sprintf("harness panic in case %d: %v\n%s", c.Case, r, debug.Stack()))
		}
	}()
	c.Prop.RunCase(c)
}

const inlineKeyLimit = 4096

func runWorker(args []string) {
	if len(args) < 5 {
		os.Exit(2)
	}
	p := props[args[0]]
	tier := args[1]
	seed, _ := strconv.ParseUint(args[2], 10, 64)
	dir := args[3]
	k := args[4]
	if p == nil {
		os.Exit(2)
	}
	res := os.NewFile(3, "results")
	w := bufio.NewWriterSize(res, 1<<20)
	in := bufio.NewScanner(os.Stdin)
	big := map[string]map[uint64]struct{}{}
	for in.Scan() {
		i, err := strconv.Atoi(strings.TrimSpace(in.Text()))
		if err != nil {
			continue
		}
		c := newCtx(p, tier, seed, i, dir)
		runCaseProtected(c)
		for set, m := range c.keys {
			if len(m) <= inlineKeyLimit {
				if c.out.Keys == nil {
					c.out.Keys = map[string][]uint64{}
				}
				ks := make([]uint64, 0, len(m))
				for h := range m {
					ks = append(ks, h)
				}
				c.out.Keys[set] = ks
			} else {
				bm := big[set]
				if bm == nil {
					bm = map[uint64]struct{}{}
					big[set] = bm
				}
				for h := range m {
					bm[h] = struct{}{}
				}
			}
		}
		b, err := json.Marshal(&c.out)
		if err != nil {
			b, _ = json.Marshal(&CaseOut{Case: i, Inconclusive: "result not serialisable: " + err.Error()})
		}
		w.Write(b)
		w.WriteByte('\n')
		w.Flush()
	}
	// flush big key sets
	for set, m := range big {
		f, err := os.Create(filepath.Join(dir, fmt.Sprintf("keys-%s-%s.bin", k, set)))
		if err != nil {
			continue
		}
		bw := bufio.NewWriter(f)
		var buf [8]byte
		for h := range m {
			binary.LittleEndian.PutUint64(buf[:], h)
			bw.Write(buf[:])
		}
		bw.Flush()
		f.Close()
	}
	os.Exit(0)
}

// ---------------------------------------------------------------------------
// parent

type slotSem struct {
	mu   sync.Mutex
	cond *sync.Cond
	free int
}

func newSlotSem(n int) *slotSem {
	s := &slotSem{free: n}
	s.cond = sync.NewCond(&s.mu)
	return s
}
func (s *slotSem) acquire(n int) {
	s.mu.Lock()
	for s.free < n {
		s.cond.Wait()
	}
	s.free -= n
	s.mu.Unlock()
}
func (s *slotSem) release(n int) {
	s.mu.Lock()
	s.free += n
	s.mu.Unlock()
	s.cond.Broadcast()
}

type workerProc struct {
	cmd   *exec.Cmd
	stdin *os.File
	res   *bufio.Reader
	resF  *os.File
}

func startWorker(p *Prop, tier string, seed uint64, dir string, k int) (*workerProc, error) {
	self, err := os.Executable()
	if err != nil {
		return nil, err
	}
	cmd := exec.Command(self, "worker", p.ID, tier, strconv.FormatUint(seed, 10), dir, strconv.Itoa(k))
	inR, inW, err := os.Pipe()
	if err != nil {
		return nil, err
	}
	resR, resW, err := os.Pipe()
	if err != nil {
		return nil, err
	}
	cmd.Stdin = inR
	cmd.ExtraFiles = []*os.File{resW}
	so, _ := os.OpenFile(filepath.Join(dir, fmt.Sprintf("w%d.out", k)), os.O_CREATE|os.O_WRONLY|os.O_APPEND, 0o644)
	se, _ := os.OpenFile(filepath.Join(dir, fmt.Sprintf("w%d.err", k)), os.O_CREATE|os.O_WRONLY|os.O_APPEND, 0o644)
	cmd.Stdout, cmd.Stderr = so, se
	cmd.Env = append(os.Environ(), "VCHECK_WORKER="+strconv.Itoa(k))
	if err := cmd.Start(); err != nil {
		return nil, err
	}
	inR.Close()
	resW.Close()
	so.Close()
	se.Close()
	return &workerProc{cmd: cmd, stdin: inW, res: bufio.NewReaderSize(resR, 1<<20), resF: resR}, nil
}

func (w *workerProc) stop() {
	w.stdin.Close()
	done := make(chan struct{})
	go func() { w.cmd.Wait(); close(done) }()
	select {
	case <-done:
	case <-time.After(60 * time.Second):
		w.cmd.Process.Kill()
		<-done
	}
	w.resF.Close()
}

func (w *workerProc) kill() {
	w.cmd.Process.Kill()
	w.cmd.Wait()
	w.stdin.Close()
	w.resF.Close()
}

func nWorkers() int {
	n := runtime.NumCPU()
	if n > 16 {
		n = 16
	}
	if v, err := strconv.Atoi(os.Getenv("VERIF_WORKERS")); err == nil && v > 0 {
		n = v
	}
	return n
}

func runParent(id, tier string) int {
	start := time.Now()
	p := props[id]
	if p == nil {
		fmt.Printf("INCONCLUSIVE property=%s reason=unknown property\n", id)
		return 2
	}
	if tier != "quick" && tier != "thorough" {
		fmt.Printf("INCONCLUSIVE property=%s reason=unknown tier %q\n", id, tier)
		return 2
	}
	seed := seedFromEnv()
	dir := os.Getenv("VCHECK_SCRATCH")
	if dir == "" {
		d, err := os.MkdirTemp("", "vcheck-"+id+"-")
		if err != nil {
			fmt.Printf("INCONCLUSIVE property=%s reason=no scratch dir: %v\n", id, err)
			return 2
		}
		dir = d
		defer os.RemoveAll(d)
	}
	ncases := p.NumCases(tier, seed)
	agg := &Agg{Prop: p, Tier: tier, Seed: seed, Dir: dir, Cases: ncases, Counters: map[string]int64{},
		Keys: map[string]map[uint64]struct{}{}, Blobs: map[int]map[string]string{}, Extra: map[string]interface{}{}}

	timeout := time.Duration(p.CaseTimeout) * time.Second
	if timeout == 0 {
		timeout = 15 * time.Minute
		if tier == "thorough" {
			timeout = 60 * time.Minute
		}
	}

	nw := nWorkers()
	if nw > ncases {
		nw = ncases
	}
	sem := newSlotSem(16)
	var mu sync.Mutex
	next := 0
	results := make([]*CaseOut, ncases)
	var wg sync.WaitGroup
	for k := 0; k < nw; k++ {
		wg.Add(1)
		go func(k int) {
			defer wg.Done()
			var w *workerProc
			defer func() {
				if w != nil {
					w.stop()
				}
			}()
			for {
				mu.Lock()
				i := next
				next++
				mu.Unlock()
				if i >= ncases {
					return
				}
				cost := 1
				if p.Cost != nil {
					cost = p.Cost(tier, seed, i)
					if cost > 16 {
						cost = 16
					}
				}
				sem.acquire(cost)
				if w == nil {
					var err error
					w, err = startWorker(p, tier, seed, dir, k)
					if err != nil {
						sem.release(cost)
						mu.Lock()
						results[i] = &CaseOut{Case: i, Inconclusive: "cannot start worker: " + err.Error()}
						mu.Unlock()
						return
					}
				}
				fmt.Fprintf(w.stdin, "%d\n", i)
				type rd struct {
					line []byte
					err  error
				}
				ch := make(chan rd, 1)
				go func(w *workerProc) {
					line, err := w.res.ReadBytes('\n')
					ch <- rd{line, err}
				}(w)
				var out CaseOut
				select {
				case r := <-ch:
					if r.err != nil {
						// worker died inside case i
						w.kill()
						w = nil
						tail := tailFile(filepath.Join(dir, fmt.Sprintf("w%d.err", k)), 1500)
						out = CaseOut{Case: i}
						if p.CrashIsViolation {
							out.Violations = []Violation{{"process-crash", "worker process died while executing this case (unrecoverable failure in the code under test)", tail}}
						} else {
							out.Inconclusive = "worker died in case " + strconv.Itoa(i) + ": " + tail
						}
					} else if err := json.Unmarshal(r.line, &out); err != nil {
						out = CaseOut{Case: i, Inconclusive: "bad result line: " + err.Error()}
					} else if out.Poisoned {
						w.kill()
						w = nil
					}
				case <-time.After(timeout):
					w.kill()
					w = nil
					out = CaseOut{Case: i, Inconclusive: fmt.Sprintf("watchdog: case %d exceeded %v", i, timeout)}
				}
				sem.release(cost)
				mu.Lock()
				results[i] = &out
				mu.Unlock()
			}
		}(k)
	}
	wg.Wait()

	// aggregate in case order (deterministic)
	for i, r := range results {
		if r == nil {
			agg.Inconclusive = append(agg.Inconclusive, fmt.Sprintf("case %d produced no result", i))
			continue
		}
		agg.Execs += r.Execs
		for k, v := range r.Counters {
			if strings.HasPrefix(k, "max_") {
				if v > agg.Counters[k] {
					agg.Counters[k] = v
				}
			} else {
				agg.Counters[k] += v
			}
		}
		for set, ks := range r.Keys {
			m := agg.Keys[set]
			if m == nil {
				m = map[uint64]struct{}{}
				agg.Keys[set] = m
			}
			for _, h := range ks {
				m[h] = struct{}{}
			}
		}
		for _, v := range r.Violations {
			agg.Violate(i, v.Class, v.Msg, v.Detail)
		}
		if len(agg.Samples) < 6 {
			for _, s := range r.Samples {
				if len(agg.Samples) < 6 {
					agg.Samples = append(agg.Samples, s)
				}
			}
		}
		if r.Inconclusive != "" {
			agg.Inconclusive = append(agg.Inconclusive, r.Inconclusive)
		}
		for _, n := range r.Notes {
			if len(agg.Notes) < 20 {
				agg.Notes = append(agg.Notes, n)
			}
		}
		if r.Blob != nil {
			agg.Blobs[i] = r.Blob
		}
	}
	// big key sets flushed by workers
	files, _ := filepath.Glob(filepath.Join(dir, "keys-*-*.bin"))
	for _, f := range files {
		base := strings.TrimSuffix(filepath.Base(f), ".bin")
		parts := strings.SplitN(base, "-", 3)
		if len(parts) != 3 {
			continue
		}
		set := parts[2]
		data, err := os.ReadFile(f)
		if err != nil {
			continue
		}
		m := agg.Keys[set]
		if m == nil {
			m = map[uint64]struct{}{}
			agg.Keys[set] = m
		}
		for o := 0; o+8 <= len(data); o += 8 {
			m[binary.LittleEndian.Uint64(data[o:])] = struct{}{}
		}
	}
	if p.Post != nil {
		func() {
			defer func() {
				if r := recover(); r != nil {
					agg.Inconclusive = append(agg.Inconclusive, fmt.Sprintf("offline monitor panicked: %v\n%s", r, debug.Stack()))
				}
			}()
			p.Post(agg)
		}()
	}
	return conclude(agg, time.Since(start).Seconds())
}

func tailFile(path string, n int) string {
	b, err := os.ReadFile(path)
	if err != nil {
		return ""
	}
	if len(b) > n {
		// keep the head as well: Go prints the fatal error first
		return string(b[:n/2]) + "\n...\n" + string(b[len(b)-n/2:])
	}
	return string(b)
}

// ---------------------------------------------------------------------------
// known findings

type KnownFinding struct {
	Property string `json:"property"`
	Class    string `json:"class"`
	Status   string `json:"status"` // "open"
	What     string `json:"what"`
}

type KnownFile struct {
	Findings []KnownFinding `json:"findings"`
	Fixed    []string       `json:"fixed"`
}

func loadKnown() KnownFile {
	var k KnownFile
	b, err := os.ReadFile(filepath.Join(verifRoot(), "known_findings.json"))
	if err == nil {
		json.Unmarshal(b, &k)
	}
	return k
}

// Replay is the content of a replay file.
type Replay struct {
	Property string      `json:"property"`
	Tier     string      `json:"tier"`
	Seed     uint64      `json:"seed"`
	Case     int         `json:"case"`
	Class    string      `json:"class"`
	Msg      string      `json:"msg"`
	Detail   interface{} `json:"detail,omitempty"`
	How      string      `json:"how_to_replay"`
}

func conclude(a *Agg, wall float64) int {
	p := a.Prop
	known := loadKnown()
	isKnown := func(class string) *KnownFinding {
		for i := range known.Findings {
			f := &known.Findings[i]
			if f.Property == p.ID && f.Status == "open" && f.Class == class {
				return f
			}
		}
		return nil
	}
	// group violations by class
	type grp struct {
		first struct {
			Case int
			V    Violation
		}
		n int
	}
	byClass := map[string]*grp{}
	order := []string{}
	for _, v := range a.Violations {
		g := byClass[v.V.Class]
		if g == nil {
			g = &grp{first: v}
			byClass[v.V.Class] = g
			order = append(order, v.V.Class)
		}
		g.n++
	}
	sort.Strings(order)
	newViol, knownSeen := 0, 0
	os.MkdirAll(filepath.Join(outRoot(), "replays"), 0o755)
	for _, class := range order {
		g := byClass[class]
		if f := isKnown(class); f != nil {
			knownSeen += g.n
			fmt.Printf("KNOWN-FINDING: property=%s %s (class %s, observed %d times this run)\n", p.ID, f.What, class, g.n)
			continue
		}
		newViol += g.n
		name := fmt.Sprintf("%s-%s-seed%d-case%d-%s.json", p.ID, a.Tier, a.Seed, g.first.Case, sanitize(class))
		path := filepath.Join(outRoot(), "replays", name)
		rp := Replay{Property: p.ID, Tier: a.Tier, Seed: a.Seed, Case: g.first.Case, Class: class, Msg: g.first.V.Msg,
			Detail: g.first.V.Detail, How: "./check " + p.ID + " --replay " + path}
		b, _ := json.MarshalIndent(rp, "", " ")
		os.WriteFile(path, b, 0o644)
		fmt.Printf("VIOLATION property=%s replay=%s\n", p.ID, path)
		fmt.Printf("  class=%s occurrences=%d first: %s\n", class, g.n, g.first.V.Msg)
	}
	distinct := map[string]int{}
	for set, m := range a.Keys {
		distinct[set] = len(m)
	}
	cov := map[string]interface{}{
		"evaluations":         a.Execs,
		"distinct_nontrivial": distinct["nontrivial"],
		"rule":                p.Rule,
		"samples":             a.Samples,
		"cases":               a.Cases,
		"counters":            a.Counters,
		"distinct":            distinct,
		"workers":             nWorkers(),
	}
	if p.Exhaustive {
		cov["exhaustive"] = true
	}
	if len(a.Notes) > 0 {
		cov["notes"] = a.Notes
	}
	for k, v := range a.Extra {
		cov[k] = v
	}
	if len(a.Samples) == 0 {
		cov["samples"] = []interface{}{}
	}
	ev := map[string]interface{}{
		"property_id":             p.ID,
		"tier":                    a.Tier,
		"seed":                    a.Seed,
		"level":                   p.Level,
		"coverage":                cov,
		"assumptions":             p.Assumptions,
		"wall_s":                  wall,
		"violations":              newViol,
		"known_finding_instances": knownSeen,
		"inconclusive":            a.Inconclusive,
		"verdict":                 "held-on-observed",
	}
	code := 0
	if len(a.Inconclusive) > 0 {
		code = 2
		ev["verdict"] = "inconclusive"
	}
	if a.Execs < p.MinEvals || distinct["nontrivial"] < 2 {
		code = 2
		ev["verdict"] = "inconclusive"
		a.Inconclusive = append(a.Inconclusive, fmt.Sprintf("too little observed: %d executions (minimum %d), %d distinct non-trivial", a.Execs, p.MinEvals, distinct["nontrivial"]))
		ev["inconclusive"] = a.Inconclusive
	}
	if newViol > 0 {
		code = 1
		ev["verdict"] = "violated"
	}
	os.MkdirAll(filepath.Join(outRoot(), "evidence"), 0o755)
	b, _ := json.MarshalIndent(ev, "", " ")
	os.WriteFile(filepath.Join(outRoot(), "evidence", p.ID+".json"), b, 0o644)
	for i, r := range a.Inconclusive {
		if i >= 5 {
			break
		}
		r = strings.ReplaceAll(r, "\n", " | ")
		if len(r) > 600 {
			r = r[:600]
		}
		fmt.Printf("INCONCLUSIVE property=%s reason=%s\n", p.ID, r)
	}
	cs, _ := json.Marshal(a.Counters)
	fmt.Printf("SUMMARY property=%s tier=%s seed=%d cases=%d executions=%d distinct_nontrivial=%d violations=%d known=%d wall=%.1fs exit=%d\n  counters=%s\n",
		p.ID, a.Tier, a.Seed, a.Cases, a.Execs, distinct["nontrivial"], newViol, knownSeen, wall, code, cs)
	return code
}

func sanitize(s string) string {
	b := []byte(s)
	for i, c := range b {
		if !(c >= 'a' && c <= 'z' || c >= 'A' && c <= 'Z' || c >= '0' && c <= '9' || c == '-' || c == '_') {
			b[i] = '_'
		}
	}
	if len(b) > 60 {
		b = b[:60]
	}
	return string(b)
}

// ---------------------------------------------------------------------------
// replay

func runReplay(file string) int {
	b, err := os.ReadFile(file)
	if err != nil {
		fmt.Println("cannot read replay file:", err)
		return 2
	}
	var rp Replay
	if err := json.Unmarshal(b, &rp); err != nil {
		fmt.Println("bad replay file:", err)
		return 2
	}
	p := props[rp.Property]
	if p == nil {
		fmt.Println("unknown property", rp.Property)
		return 2
	}
	dir, err := os.MkdirTemp("", "vcheck-replay-")
	if err != nil {
		return 2
	}
	defer os.RemoveAll(dir)
	if v := os.Getenv("VCHECK_SCRATCH"); v != "" {
		dir = v
	}
	fmt.Printf("replaying property=%s tier=%s seed=%d case=%d (recorded: %s)\n", rp.Property, rp.Tier, rp.Seed, rp.Case, rp.Msg)
	c := newCtx(p, rp.Tier, rp.Seed, rp.Case, dir)
	c.Verbose = true
	runCaseProtected(c)
	// parent-side offline monitors (race logs, counter sums) over this one case
	if p.Post != nil && rp.Property != "C01" {
		agg := &Agg{Prop: p, Tier: rp.Tier, Seed: rp.Seed, Dir: dir, Cases: 1, Counters: map[string]int64{},
			Keys: map[string]map[uint64]struct{}{}, Blobs: map[int]map[string]string{}, Extra: map[string]interface{}{}}
		if c.out.Blob != nil {
			agg.Blobs[rp.Case] = c.out.Blob
		}
		func() {
			defer func() { recover() }()
			p.Post(agg)
		}()
		for _, v := range agg.Violations {
			c.out.Violations = append(c.out.Violations, v.V)
			fmt.Printf("  violation class=%s: %s\n", v.V.Class, v.V.Msg)
		}
	}
	known := loadKnown()
	n := 0
	for _, v := range c.out.Violations {
		open := false
		for _, f := range known.Findings {
			if f.Property == p.ID && f.Status == "open" && f.Class == v.Class {
				open = true
			}
		}
		if open {
			fmt.Printf("KNOWN-FINDING: property=%s class=%s\n", p.ID, v.Class)
			continue
		}
		n++
	}
	if c.out.Inconclusive != "" {
		fmt.Printf("INCONCLUSIVE property=%s reason=%s\n", p.ID, c.out.Inconclusive)
		return 2
	}
	if n > 0 {
		fmt.Printf("VIOLATION property=%s replay=%s\n", p.ID, file)
		return 1
	}
	fmt.Println("replay: the case no longer violates (note: properties with parent-side offline monitors are judged only by a full run)")
	return 0
}
