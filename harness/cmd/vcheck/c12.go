package main

import (
	"fmt"
	"math"
	"strings"
	"sync"
	"sync/atomic"

	spg "go.1password.io/spg"

	"verifharness/gen"
	"verifharness/oracle"
)

// C12 — Tokenize is total: malformed indices give an error, never a panic or fake text.

func c12Counts(tier string) (cases, per int) {
	if tier == "thorough" {
		return 10000, 10000
	}
	return 208, 5000
}

func init() {
	register(&Prop{
		ID:    "C12",
		Level: "exploration",
		Rule:  "seed-generated (password, index, entropy) triples: index lengths 0..12 in both parities (and a few up to 40), every kind byte 0..255, bodies biased to 0/1/255 and to length sums equal to / one above the character count, valid indices mutated (truncated, extended, kind flipped); passwords empty, ASCII, multi-byte, invalid UTF-8 (lone continuation bytes, truncated sequences, 0xFF) and long. Each Tokenize call is compared with the decoder specification. evaluations = Tokenize calls; distinct_nontrivial = distinct (password, index) pairs with a non-empty password and a known kind byte",
		Assumptions: []string{
			"decoder specification (harness/oracle RefTokenize): kind 0 one token per character; kinds 1,2 one length byte per token; kind 3 (length,type) pairs, odd body length is a truncated index; characters are code points, each invalid byte one character",
		},
		MinEvals:         10000,
		NumCases:         func(tier string, seed uint64) int { c, _ := c12Counts(tier); return c },
		RunCase:          c12Case,
		CrashIsViolation: true,
	})
}

var c12Passwords = []string{
	"", "a", "abcdef", "correct horse battery staple", "három¡három¡egy", "űβ™λ", "語漢字かな", "🙂🚀𝒳𝔘",
	"\xff", "a\x80b", "\xe2\x82", "ab\xf0\x9f", "\xc3\x28xyz", "\x80\x80\x80", "é\xffé", " ", "\x00\x00", "a-b-c-d-e-f-g-h",
}

func c12Password(r *gen.R) string {
	switch r.Intn(10) {
	case 0:
		return strings.Repeat(c12Passwords[r.Intn(len(c12Passwords))], r.Range(1, 40))
	case 1:
		n := r.Range(250, 520)
		b := make([]byte, n)
		for i := range b {
			b[i] = byte('a' + r.Intn(26))
		}
		return string(b)
	case 2: // random bytes
		n := r.Range(0, 12)
		b := make([]byte, n)
		for i := range b {
			b[i] = byte(r.Intn(256))
		}
		return string(b)
	default:
		return c12Passwords[r.Intn(len(c12Passwords))]
	}
}

func c12Index(r *gen.R, pw string, kindSweep int) []byte {
	nchars := oracle.CharCount(pw)
	switch r.Intn(8) {
	case 0, 1: // a valid segmentation, possibly mutated
		return c12ValidIndex(r, nchars, true)
	case 2:
		return c12ValidIndex(r, nchars, false)
	}
	n := r.Range(0, 12)
	if r.Chance(1, 30) {
		n = r.Range(13, 40)
	}
	if n == 0 {
		return []byte{}
	}
	idx := make([]byte, n)
	idx[0] = byte(kindSweep)
	if r.Chance(2, 3) {
		idx[0] = byte(r.Intn(4))
	}
	for i := 1; i < n; i++ {
		switch r.Intn(6) {
		case 0:
			idx[i] = 0
		case 1:
			idx[i] = 1
		case 2:
			idx[i] = 255
		case 3:
			idx[i] = byte(r.Intn(4))
		case 4:
			idx[i] = byte(nchars)
		default:
			idx[i] = byte(r.Intn(256))
		}
	}
	return idx
}

// c12ValidIndex segments nchars characters and encodes the segmentation in a
// seed-chosen kind; with mutate it then damages the index.
func c12ValidIndex(r *gen.R, nchars int, mutate bool) []byte {
	lens := []int{}
	left := nchars
	for left > 0 && len(lens) < 12 {
		l := r.Range(1, 4)
		if l > left || r.Chance(1, 4) {
			l = left
		}
		if l > 255 {
			l = 255
		}
		lens = append(lens, l)
		left -= l
	}
	kind := byte(r.Range(1, 3))
	idx := []byte{kind}
	for i, l := range lens {
		idx = append(idx, byte(l))
		if kind == 3 {
			idx = append(idx, byte((i+1)%2))
		}
	}
	if !mutate {
		return idx
	}
	switch r.Intn(6) {
	case 0:
		if len(idx) > 0 {
			idx = idx[:len(idx)-1] // truncate by one
		}
	case 1:
		idx = append(idx, byte(r.Intn(3))) // extend by one
	case 2:
		idx[0] = byte(r.Intn(256)) // flip kind
	case 3:
		if len(idx) > 1 {
			idx[1+r.Intn(len(idx)-1)]++ // one length one too long
		}
	case 4:
		idx = append(idx, 1, 1) // one more token than the string holds
	case 5:
		idx[0] = 3 // reinterpret as full index (parity changes)
	}
	return idx
}

func c12Class(idx []byte, what string) string {
	if len(idx) == 0 {
		return what + ":empty-index"
	}
	k := "unknown-kind"
	if idx[0] <= 3 {
		k = fmt.Sprintf("kind%d", idx[0])
	}
	par := "odd-body"
	if (len(idx)-1)%2 == 0 {
		par = "even-body"
	}
	return what + ":" + k + "-" + par
}

// c12Concurrent: several goroutines decode different passwords at once; every result must still be a
// function of its own arguments.
func c12Concurrent(c *Ctx) {
	type job struct {
		pw  string
		idx []byte
	}
	jobs := make([]job, 64)
	for i := range jobs {
		pw := c12Password(c.R)
		jobs[i] = job{pw, c12ValidIndex(c.R, oracle.CharCount(pw), i%4 == 0)}
	}
	var mu sync.Mutex
	var first *Violation
	var wg sync.WaitGroup
	var calls int64
	for g := 0; g < 8; g++ {
		wg.Add(1)
		go func(g int) {
			defer wg.Done()
			for it := 0; it < 400; it++ {
				j := jobs[(g*7+it)%len(jobs)]
				var p spg.Password
				var err error
				var pan interface{}
				func() {
					defer func() { pan = recover() }()
					p, err = spg.Tokenize(j.pw, spg.Indices(j.idx), 1)
				}()
				atomic.AddInt64(&calls, 1)
				ref, ok := oracle.RefTokenize(j.pw, j.idx)
				bad := ""
				switch {
				case pan != nil:
					bad = fmt.Sprintf("panicked: %v", pan)
				case err == nil && !ok:
					bad = "accepted a malformed index"
				case err == nil:
					got := refToks(&p)
					if len(got) != len(ref) {
						bad = fmt.Sprintf("%d tokens, specification says %d", len(got), len(ref))
					} else {
						for i := range got {
							if got[i] != ref[i] {
								bad = fmt.Sprintf("token %d is %q, specification says %q", i, got[i].V, ref[i].V)
								break
							}
						}
					}
				}
				if bad != "" {
					mu.Lock()
					if first == nil {
						first = &Violation{Class: "wrong-result-under-concurrent-callers", Msg: fmt.Sprintf("Tokenize(%q, %v) called from 8 goroutines at once: %s", j.pw, j.idx, bad)}
					}
					mu.Unlock()
					return
				}
			}
		}(g)
	}
	wg.Wait()
	c.Exec(int(calls))
	c.Count("concurrent_tokenize_calls", calls)
	if first != nil {
		c.Violate(first.Class, first.Msg, nil)
	}
}

func c12Case(c *Ctx) {
	if c.Case%16 == 5 {
		c12Concurrent(c)
	}
	_, per := c12Counts(c.Tier)
	entropies := []float32{0, 1, 41.5, -1, float32(math.Inf(1)), float32(math.Inf(-1)), math.Float32frombits(0x7fc00001), 3.4e38}
	for k := 0; k < per; k++ {
		pw := c12Password(c.R)
		idx := c12Index(c.R, pw, (c.Case*per+k)%256)
		e := entropies[c.R.Intn(len(entropies))]
		c12One(c, pw, idx, e, k == 0 && c.Case < 4)
	}
}

func c12One(c *Ctx, pw string, idx []byte, e float32, sample bool) {
	var p spg.Password
	var err error
	var pan interface{}
	func() {
		defer func() { pan = recover() }()
		p, err = spg.Tokenize(pw, spg.Indices(idx), e)
	}()
	c.Exec(1)
	det := map[string]interface{}{"password_bytes": fmt.Sprintf("%q", pw), "index": fmt.Sprint(idx), "entropy_bits": fmt.Sprintf("%#08x", math.Float32bits(e))}
	if len(idx) > 0 && idx[0] <= 3 && pw != "" {
		c.Distinct("nontrivial", pw+"\x00"+string(idx))
	}
	c.Distinct("index_shapes", fmt.Sprintf("%d/%d", len(idx), firstOr(idx)))
	if pan != nil {
		c.Violate(c12Class(idx, "tokenize-panics"), fmt.Sprintf("Tokenize(%q, %v, e) panicked: %v", pw, idx, pan), det)
		return
	}
	ref, ok := oracle.RefTokenize(pw, idx)
	if err != nil {
		c.Count("errors_returned", 1)
		if ok {
			c.Count("well_formed_index_refused", 1) // not a C12 matter (C11 covers round trips)
		}
		return
	}
	c.Count("decoded", 1)
	if !ok {
		c.Violate(c12Class(idx, "malformed-index-accepted"), fmt.Sprintf("Tokenize(%q, %v, e) returned tokens %v for an index that is empty, of unknown kind, truncated, or longer than the string", pw, idx, tokRecs(&p)), det)
		return
	}
	if math.Float32bits(p.Entropy) != math.Float32bits(e) {
		c.Violate("entropy-not-passed-through", fmt.Sprintf("Tokenize(%q, %v, %v) returned entropy %v", pw, idx, e, p.Entropy), det)
		return
	}
	got := refToks(&p)
	if len(got) != len(ref) {
		c.Violate(c12Class(idx, "wrong-tokens"), fmt.Sprintf("Tokenize(%q, %v): %d tokens, specification says %d", pw, idx, len(got), len(ref)), det)
		return
	}
	cat := ""
	for i := range got {
		if got[i].V != ref[i].V {
			c.Violate(c12Class(idx, "wrong-tokens"), fmt.Sprintf("Tokenize(%q, %v): token %d is %q, specification says %q", pw, idx, i, got[i].V, ref[i].V), det)
			return
		}
		if got[i].T != ref[i].T {
			c.Violate(c12Class(idx, "wrong-token-type"), fmt.Sprintf("Tokenize(%q, %v): token %d has type %d, specification says %d", pw, idx, i, got[i].T, ref[i].T), det)
			return
		}
		cat += got[i].V
	}
	if !strings.HasPrefix(pw, cat) {
		c.Violate("not-a-prefix", fmt.Sprintf("Tokenize(%q, %v): concatenated tokens %q are not a prefix of the string", pw, idx, cat), det)
		return
	}
	if sample {
		det["tokens"] = tokRecs(&p)
		c.Sample(det)
	}
}

func firstOr(b []byte) int {
	if len(b) == 0 {
		return -1
	}
	return int(b[0])
}
