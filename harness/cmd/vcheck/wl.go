package main

import (
	"encoding/json"
	"fmt"
	"strings"

	spg "go.1password.io/spg"

	"verifharness/gen"
	"verifharness/oracle"
)

// WLCase describes a wordlist recipe the generators produce.
type WLCase struct {
	Words    []string  `json:"words"`
	Length   int       `json:"length"`
	Scheme   string    `json:"capitalize"`
	SepKind  string    `json:"separator_kind"` // char | preset | constructed | user
	SepChar  string    `json:"separator_char,omitempty"`
	Preset   string    `json:"preset,omitempty"`
	SepRec   *CharDesc `json:"separator_recipe,omitempty"`
	UserSeps []string  `json:"user_separators,omitempty"` // returned cyclically
	UserEnt  float32   `json:"user_separator_entropy,omitempty"`
	// SepTrials > 0: the case is examined with MaxTrials=SepTrials, MaxFailRate=1 (public knobs), so that a
	// separator recipe with a requirement really fails now and then and the separator function yields ""
	SepTrials int            `json:"max_trials_knob,omitempty"`
	sepRec    spg.CharRecipe `json:"-"`
}

func (w WLCase) String() string {
	if len(w.Words) > 12 {
		cp := w
		cp.Words = append(append([]string(nil), w.Words[:12]...), fmt.Sprintf("... (%d words)", len(w.Words)))
		b, _ := json.Marshal(cp)
		return string(b)
	}
	b, _ := json.Marshal(w)
	return string(b)
}

var presetByName = map[string]spg.SFFunction{
	"SFNone": spg.SFNone, "SFDigits1": spg.SFDigits1, "SFDigits2": spg.SFDigits2,
	"SFDigitsNoAmbiguous1": spg.SFDigitsNoAmbiguous1, "SFDigitsNoAmbiguous2": spg.SFDigitsNoAmbiguous2,
	"SFSymbols": spg.SFSymbols, "SFDigitsSymbols": spg.SFDigitsSymbols,
}
var presetNames = []string{"SFNone", "SFDigits1", "SFDigits2", "SFDigitsNoAmbiguous1", "SFDigitsNoAmbiguous2", "SFSymbols", "SFDigitsSymbols"}

// presetRecipe is the documented meaning of each preset (name says what it yields).
func presetRecipe(name string) (spg.CharRecipe, bool) {
	switch name {
	case "SFDigits1":
		return spg.CharRecipe{Length: 1, Allow: spg.Digits}, true
	case "SFDigits2":
		return spg.CharRecipe{Length: 2, Allow: spg.Digits}, true
	case "SFDigitsNoAmbiguous1":
		return spg.CharRecipe{Length: 1, Allow: spg.Digits, Exclude: spg.Ambiguous}, true
	case "SFDigitsNoAmbiguous2":
		return spg.CharRecipe{Length: 2, Allow: spg.Digits, Exclude: spg.Ambiguous}, true
	case "SFSymbols":
		return spg.CharRecipe{Length: 1, Allow: spg.Symbols}, true
	case "SFDigitsSymbols":
		return spg.CharRecipe{Length: 1, Allow: spg.Symbols | spg.Digits}, true
	}
	return spg.CharRecipe{}, false
}

// SepLog records what the separator function returned, in call order.
type SepLog struct {
	Returns []string
}

// Built is a WLCase turned into real library values.
type Built struct {
	Rec  *spg.WLRecipe
	List *spg.WordList
	Log  *SepLog
	Kept []string // reference normalisation (sorted)
}

// Build constructs the list and recipe. The separator function, whatever its
// kind, is wrapped so that its returns are recorded.
func (w WLCase) Build() (*Built, error) {
	wl, err := spg.NewWordList(w.Words)
	if err != nil {
		return nil, err
	}
	b := &Built{List: wl, Log: &SepLog{}, Kept: oracle.Normalize(w.Words)}
	rec := spg.NewWLRecipe(w.Length, wl)
	rec.Capitalize = spg.CapScheme(w.Scheme)
	var inner spg.SFFunction
	switch w.SepKind {
	case "char":
		rec.SeparatorChar = w.SepChar
	case "preset":
		inner = presetByName[w.Preset]
	case "constructed":
		inner = spg.NewSFFunction(w.sepRec)
	case "user":
		k := 0
		seps, ent := w.UserSeps, w.UserEnt
		inner = func() (string, spg.FloatE) {
			s := seps[k%len(seps)]
			k++
			return s, spg.FloatE(ent)
		}
	}
	if w.SepKind != "char" {
		rec.SeparatorChar = w.SepChar // both fields set: the function is documented to win
	}
	if inner != nil {
		log := b.Log
		rec.SeparatorFunc = func() (string, spg.FloatE) {
			s, e := inner()
			log.Returns = append(log.Returns, s)
			return s, e
		}
	}
	b.Rec = rec
	return b, nil
}

var schemes = []string{"none", "first", "all", "random", "one"}

// oddSchemes are CapScheme values a caller can build that are none of the defined constants: what Generate does
// with them is the library's choice, but it must be the same choice in Generate and in Entropy, and never a panic
var oddSchemes = []string{"", "ALL", "First", "every", "rand", " one", "RANDOM", "None", "one ", "all\n", "Random", "One", "title", "random\x00"}

type wlOpts struct {
	minWords, maxWords int
	maxLen             int
	twins, uncap       bool
	allowUnknownScheme bool
	smallSepOnly       bool // separator recipes with tiny alphabets only (tree exploration)
	hostileWords       bool // long / multi-byte / odd words
	noReqSep           bool
}

func genWLCase(r *gen.R, o wlOpts) WLCase {
	w := WLCase{}
	w.Words = wlInput(r, o.minWords, o.maxWords, o.twins, o.uncap)
	if o.hostileWords && r.Chance(1, 3) {
		extra := []string{
			strings.Repeat("a", 254), strings.Repeat("b", 255), strings.Repeat("é", 130), strings.Repeat("語", 90),
			"zz" + strings.Repeat("🙂", 60), "naïve", "ÀB", "x y", "tab\tword",
		}
		for k := r.Range(1, 3); k > 0; k-- {
			w.Words = append(w.Words, extra[r.Intn(len(extra))])
		}
	}
	w.Length = r.Range(1, o.maxLen)
	w.Scheme = schemes[r.Intn(len(schemes))]
	if o.allowUnknownScheme && r.Chance(1, 12) {
		w.Scheme = oddSchemes[r.Intn(len(oddSchemes))]
	}
	switch r.Intn(8) {
	case 0:
		w.SepKind, w.SepChar = "char", ""
	case 1:
		w.SepKind, w.SepChar = "char", []string{"-", " ", "_", ".", ","}[r.Intn(5)]
	case 2:
		w.SepKind, w.SepChar = "char", []string{"¡", "→←", "語", "🙂", "--", "a", "\uFFFD", "%"}[r.Intn(8)]
	case 3:
		w.SepKind, w.Preset = "preset", "SFNone"
	case 4:
		w.SepKind = "preset"
		w.Preset = presetNames[r.Intn(len(presetNames))]
		if o.smallSepOnly {
			w.Preset = []string{"SFNone", "SFDigits1", "SFSymbols"}[r.Intn(3)]
		}
	case 5, 6:
		w.SepKind = "constructed"
		var rec spg.CharRecipe
		if o.smallSepOnly || r.Bool() {
			rec = spg.CharRecipe{Length: r.Range(1, 2), AllowChars: []string{"xy", "+=", "¡!", "ab", "12", "語é"}[r.Intn(6)]}
			if !o.noReqSep && r.Chance(1, 4) {
				rec.RequireSets = []string{oracle.Chars(rec.AllowChars)[0]}
			}
		} else {
			rec = spg.CharRecipe{Length: r.Range(1, 3), Allow: spg.CTFlag(1 << uint(r.Intn(4)))}
		}
		switch r.Intn(5) { // characters listed twice, or in a class and a custom string: no exclusion, no requirement
		case 0:
			rec.AllowChars = dupSome(r, rec.AllowChars+firstChar(rec.AllowChars+"x"))
		case 1:
			if o.smallSepOnly {
				rec = spg.CharRecipe{Length: 1, Allow: spg.Symbols, AllowChars: "-_+="}
			} else {
				rec = spg.CharRecipe{Length: r.Range(1, 2), Allow: spg.Digits | spg.Symbols, AllowChars: "-_+=01"}
			}
		}
		if r.Chance(1, 12) {
			rec = spg.CharRecipe{Length: 1} // empty alphabet: the separator function swallows the error and yields ""
		}
		w.sepRec = rec
		d := descChar(rec)
		w.SepRec = &d
	default:
		w.SepKind = "user"
		w.UserSeps = [][]string{{"", "¡"}, {"-", "", "--"}, {"語", ""}, {"", ""}, {"::"}, {"a", "🙂🙂", ""}}[r.Intn(6)]
		w.UserEnt = []float32{0, 1, 2.5}[r.Intn(3)]
	}
	if w.SepKind != "char" && r.Chance(1, 4) {
		w.SepChar = []string{"#", "/", "語"}[r.Intn(3)] // SeparatorChar set as well: ignored, because SeparatorFunc is not nil
	}
	return w
}
