package main

import (
	"bytes"
	"encoding/json"
	"fmt"
	"math"
	"os"
	"os/exec"
	"reflect"
	"strings"
	"time"

	spg "go.1password.io/spg"

	"verifharness/gen"
	"verifharness/oracle"
	"verifharness/tape"
)

// C15 — calls are pure: results reflect the recipe's current fields, not call history.
//
// Monitor: seed-generated histories of API calls interleaved with caller-side
// field updates over a pool of recipes that share lists, separator functions
// and RequireSets backing arrays. (i) frame: deep snapshot of every public
// field, caller slice (with capacity tail) and list read-out before and after
// every call; (ii) history independence: every call's result is compared with
// the same call, same scripted stream, on a freshly constructed recipe with the
// same current field values in a fresh process with no history.

func c15Counts(tier string) (histories, ops int) {
	if tier == "thorough" {
		return 20000, 120
	}
	return 1200, 40
}

func init() {
	register(&Prop{
		ID:    "C15",
		Level: "exploration",
		Rule:  "VERIF_SEED-generated histories (quick 300 x 40 ops, thorough 5000 x 120 ops) over pools of 1-4 recipes of both kinds sharing word lists, constructed/preset separator functions and RequireSets backing arrays; ops: Generate (scripted stream), Entropy, Alphabet, SuccessProbability, separator call, caller-side updates of Length / flags / custom strings / in-place edit of the RequireSets backing array / SeparatorChar / SeparatorFunc / Capitalize / list swap, and changes of the process environment (a panel of locale and debugging variables plus every variable the library was observed to read: cmd/envprobe under -test.testlogfile). Now and then a call is cut short by a failing source (the caller recovers) or repeated with a source that blocks for 300 ms, and the caller reuses the slice a list was built from. After every call the whole pool is deep-compared with its snapshot; every call is re-executed on a fresh recipe in a fresh child process started from yet another environment and the results (including the number of stream bytes consumed) compared; returned passwords and errors are re-read at the end; a call that does not return is reported only when its goroutine is seen twice in the same lock/channel wait inside the library. evaluations = API calls made in histories + replays; distinct_nontrivial = distinct (current field values, call, script) triples that were preceded by at least one other call",
		Assumptions: []string{
			"the reference for history independence is the implementation itself on the trivial history (fresh recipe, fresh process); no semantics are assumed",
			"wordlist results are compared as (word index, capitalised, separator) choice records because list order is fixed per construction",
			"caller-written stateful separator functions are not used: their state is the caller's, not the library's",
		},
		MinEvals: 2000,
		NumCases: func(tier string, seed uint64) int { h, _ := c15Counts(tier); return (h + 3) / 4 },
		RunCase:  c15Case,
	})
	if len(os.Args) > 1 && os.Args[1] == "c15probe" {
		c15Probe()
	}
}

// c15Op is one call, described by the current public field values.
type c15Op struct {
	Kind   string   `json:"kind"` // char | wl | sep
	Char   CharDesc `json:"char"`
	WL     *WLCase  `json:"wl,omitempty"`
	Call   string   `json:"call"`
	Script []uint32 `json:"script,omitempty"`
	Trials int      `json:"max_trials"`
	Fail   float64  `json:"max_fail_rate"`
	// StallAt > 0: the source blocks for 300 ms before answering that read (never sent to the fresh process)
	StallAt int `json:"-"`
	// FaultAt > 0: that read fails, and so does every later one (never sent to the fresh process)
	FaultAt int `json:"-"`
}

// c15Exec performs the call on the given live objects and renders the result.
// c15Retained collects every *Password the history's Generate calls returned, with a snapshot taken at once.
type c15Kept struct {
	p    *spg.Password
	toks []TokRec
	ent  uint32
}

var c15Retained []c15Kept

// c15RetainedErrs: every error a call returned, with the text it had when it was returned
type c15KeptErr struct {
	err  error
	text string
}

var c15RetainedErrs []c15KeptErr

func c15RetainErr(err error) {
	if err != nil && len(c15RetainedErrs) < 4000 {
		c15RetainedErrs = append(c15RetainedErrs, c15KeptErr{err, err.Error()})
	}
}

func c15Retain(p *spg.Password) {
	if p != nil && len(c15Retained) < 4000 {
		c15Retained = append(c15Retained, c15Kept{p, tokRecs(p), math.Float32bits(p.Entropy)})
	}
}

// c15Exec performs the call and appends how many bytes of its stream the call consumed: a call that is a function
// of its recipe and its stream consumes the same bytes wherever in a history it stands.
func c15Exec(op c15Op, cr *spg.CharRecipe, wr *spg.WLRecipe, wl *spg.WordList, sf spg.SFFunction) string {
	c15LastTape = nil
	res := c15ExecInner(op, cr, wr, wl, sf)
	if t := c15LastTape; t != nil {
		res += fmt.Sprintf("|B=%d", t.BytesOut)
	}
	return res
}

var c15LastTape *tape.Tape

func c15ExecInner(op c15Op, cr *spg.CharRecipe, wr *spg.WLRecipe, wl *spg.WordList, sf spg.SFFunction) string {
	var t *tape.Tape
	if op.Script != nil {
		t = &tape.Tape{Script: op.Script, AutoExtend: true, MaxDraws: 3000}
		c15LastTape = t
		if op.StallAt > 0 {
			t.StallAt, t.Stall = op.StallAt, 300*time.Millisecond
		}
		if op.FaultAt > 0 {
			t.FaultAt, t.FaultStick = op.FaultAt, true
		}
	}
	switch op.Kind {
	case "char":
		switch op.Call {
		case "Generate":
			o := runGen(cr, t)
			c15Retain(o.Pw)
			if o.Pw != nil {
				return outcomeKey(o) + fmt.Sprintf("|E=%08x", math.Float32bits(o.Pw.Entropy))
			}
			if o.Err != nil {
				c15RetainErr(o.Err)
				return "ERR:" + o.Err.Error()
			}
			return outcomeKey(o)
		case "Entropy":
			return fmt.Sprintf("E=%08x", math.Float32bits(cr.Entropy()))
		case "Alphabet":
			return "A=" + cr.Alphabet()
		case "SuccessProbability":
			return fmt.Sprintf("SP=%08x", math.Float32bits(cr.SuccessProbability()))
		}
	case "wl":
		switch op.Call {
		case "Generate":
			o := runGen(wr, t)
			c15Retain(o.Pw)
			if o.Pw == nil {
				if o.Err != nil {
					return "ERR:" + o.Err.Error()
				}
				return outcomeKey(o)
			}
			order, err := readOutList(wl)
			if err != nil {
				return "readout-failed"
			}
			return wlChoices(o.Pw, order) + fmt.Sprintf("|E=%08x", math.Float32bits(o.Pw.Entropy))
		case "Entropy":
			if t != nil {
				t.Install()
				defer tape.Restore()
			}
			return fmt.Sprintf("E=%08x", math.Float32bits(wr.Entropy()))
		case "Size":
			return fmt.Sprintf("N=%d", wr.Size())
		}
	case "sep":
		if t != nil {
			t.Install()
			defer tape.Restore()
		}
		res := ""
		func() {
			defer func() {
				if r := recover(); r != nil {
					res = fmt.Sprintf("PANIC:%v", r)
				}
			}()
			s, e := sf()
			res = fmt.Sprintf("S=%q|E=%08x", s, math.Float32bits(float32(e)))
		}()
		return res
	}
	return "unknown-op"
}

func wlChoices(p *spg.Password, order []string) string {
	rank := map[string]int{}
	for i, w := range order {
		rank[w] = i
	}
	parts := []string{}
	for _, tk := range p.Tokens() {
		if tk.Type() == spg.SeparatorType {
			parts = append(parts, "S:"+tk.Value())
			continue
		}
		if i, ok := rank[tk.Value()]; ok {
			parts = append(parts, fmt.Sprintf("W%d", i))
			continue
		}
		found := false
		for _, w := range order {
			if oracle.Title(w) == tk.Value() {
				parts = append(parts, fmt.Sprintf("T%d", rank[w]))
				found = true
				break
			}
		}
		if !found {
			parts = append(parts, "?"+tk.Value())
		}
	}
	return strings.Join(parts, " ")
}

// c15Fresh executes the op on freshly constructed values.
func c15Fresh(op c15Op) string {
	if op.Trials > 0 {
		defer knobs(op.Trials, op.Fail)()
	}
	switch op.Kind {
	case "char":
		r := charFromDesc(op.Char)
		return c15Exec(op, &r, nil, nil, nil)
	case "wl":
		op.WL.restore()
		b, err := op.WL.BuildPlain()
		if err != nil {
			return "build-failed:" + err.Error()
		}
		return c15Exec(op, nil, b.Rec, b.List, nil)
	case "sep":
		op.WL.restore()
		return c15Exec(op, nil, nil, nil, op.WL.sepFunc())
	}
	return "unknown-op"
}

// sepFunc returns the library separator function the case names (nil for char).
func (w WLCase) sepFunc() spg.SFFunction {
	switch w.SepKind {
	case "preset":
		return presetByName[w.Preset]
	case "constructed":
		return spg.NewSFFunction(w.sepRec)
	}
	return nil
}

// BuildPlain builds the recipe without the recording wrapper around the separator function.
func (w WLCase) BuildPlain() (*Built, error) {
	wl, err := spg.NewWordList(w.Words)
	if err != nil {
		return nil, err
	}
	rec := spg.NewWLRecipe(w.Length, wl)
	rec.Capitalize = spg.CapScheme(w.Scheme)
	if w.SepKind == "char" {
		rec.SeparatorChar = w.SepChar
	} else {
		rec.SeparatorFunc = w.sepFunc()
	}
	return &Built{Rec: rec, List: wl}, nil
}

func c15Probe() {
	var ops []c15Op
	if err := json.NewDecoder(os.Stdin).Decode(&ops); err != nil {
		os.Exit(2)
	}
	null, _ := os.OpenFile(os.DevNull, os.O_WRONLY, 0)
	stdout := os.Stdout
	os.Stdout = null
	out := make([]string, len(ops))
	for i, op := range ops {
		func() {
			defer func() {
				if r := recover(); r != nil {
					out[i] = fmt.Sprintf("PROBE-PANIC:%v", r)
				}
			}()
			out[i] = c15Fresh(op)
		}()
	}
	os.Stdout = stdout
	json.NewEncoder(os.Stdout).Encode(out)
	os.Exit(0)
}

// ---- live pool

type c15Char struct {
	rec   *spg.CharRecipe
	model CharDesc
}

type c15WL struct {
	rec   *spg.WLRecipe
	list  *spg.WordList
	input []string // the slice given to NewWordList
	model WLCase
}

type c15Pool struct {
	chars   []*c15Char
	wls     []*c15WL
	shared  []string // RequireSets backing array shared by two character recipes
	lists   []*spg.WordList
	inputs  [][]string
	origs   [][]string // what each input slice held when its list was built (the caller may scribble over inputs later)
	sepRecs []spg.CharRecipe
}

type c15Snap struct {
	Chars    []spg.CharRecipe // public fields only are set
	ReqFull  [][]string       // RequireSets with capacity tail
	WLPub    []string
	Readouts [][]string
	Inputs   [][]string
	Trials   int
	FailRate float64
}

func (p *c15Pool) snapshot() c15Snap {
	s := c15Snap{Trials: spg.MaxTrials, FailRate: spg.MaxFailRate}
	for _, ch := range p.chars {
		r := ch.rec
		s.Chars = append(s.Chars, spg.CharRecipe{Length: r.Length, Allow: r.Allow, Require: r.Require, Exclude: r.Exclude,
			AllowChars: r.AllowChars, ExcludeChars: r.ExcludeChars, RequireSets: append([]string(nil), r.RequireSets...)})
		full := r.RequireSets
		if full != nil {
			full = full[:cap(full)]
		}
		s.ReqFull = append(s.ReqFull, append([]string(nil), full...))
	}
	for _, w := range p.wls {
		r := w.rec
		s.WLPub = append(s.WLPub, fmt.Sprintf("%d|%q|%v|%q", r.Length, r.SeparatorChar, r.SeparatorFunc == nil, r.Capitalize))
	}
	for _, l := range p.lists {
		ro, _ := readOutList(l)
		s.Readouts = append(s.Readouts, ro)
	}
	for _, in := range p.inputs {
		s.Inputs = append(s.Inputs, append([]string(nil), in[:cap(in)]...))
	}
	return s
}

// c15StallBudget: how many calls of the current case may still be repeated with a blocking source (each costs 300 ms)
var c15StallBudget int

func c15Case(c *Ctx) {
	c15StallBudget = 1
	hist, nops := c15Counts(c.Tier)
	for h := 0; h < 4 && c.Case*4+h < hist; h++ {
		c15History(c, gen.New(c.Seed, "c15", c.Case, h), nops, h == 0 && c.Case < 3)
	}
}

func c15History(c *Ctx, r *gen.R, nops int, sample bool) {
	defer knobs(spg.MaxTrials, spg.MaxFailRate)() // whatever the history does to the knobs ends with it
	envs := envNames()
	defer envRestore(envs)()
	if d, note := envConsulted(); note == "ok" {
		c.Count("environment_probe_ok", 1)
		c.Max("environment_variables_the_library_was_seen_to_read", int64(len(d)))
	} else {
		c.Count("environment_probe_unavailable", 1)
	}
	c15Retained = nil
	c15RetainedErrs = nil
	pool := &c15Pool{}
	// shared RequireSets backing array (with spare capacity)
	pool.shared = make([]string, 2, 6)
	pool.shared[0], pool.shared[1] = "ab", "01"
	pool.shared = pool.shared[:2]
	if r.Chance(1, 2) { // empty strings between the sets: documented to be ignored, and must be left where they are
		pool.shared = pool.shared[:4]
		pool.shared[0], pool.shared[1], pool.shared[2], pool.shared[3] = "", "ab", "", "01"
	}
	nchar := r.Range(1, 2)
	for i := 0; i < nchar; i++ {
		rec := smallCharRecipe(r, 8, 6, 2)
		if i == 1 || r.Chance(1, 3) {
			rec.RequireSets = pool.shared
			rec.AllowChars += "abxyz01"
			if rec.Length < 2 {
				rec.Length = 3
			}
		}
		if r.Chance(1, 4) { // class requirement overlapping a class exclusion
			rec.Allow, rec.Require, rec.Exclude = spg.Lowers, spg.Digits, spg.Ambiguous
			if rec.Length < 2 {
				rec.Length = 4
			}
		}
		rp := new(spg.CharRecipe)
		*rp = rec
		pool.chars = append(pool.chars, &c15Char{rec: rp, model: descChar(rec)})
		if r.Chance(1, 2) { // field-regrouped siblings of the same recipe live in the same pool
			for _, sib := range siblingsOf(r, rec) {
				if len(pool.chars) >= 5 {
					break
				}
				sp := new(spg.CharRecipe)
				*sp = sib
				pool.chars = append(pool.chars, &c15Char{rec: sp, model: descChar(sib)})
			}
		}
	}
	// lists
	nlist := r.Range(1, 2)
	for i := 0; i < nlist; i++ {
		// capitalisable words only (choice records must not depend on which word sits at an index), but the
		// input may hold capitalised twins: normalisation removes them
		in := wlInput(r, 2, 6, true, false)
		for try := 0; try < 50 && !(oracle.PremiseHolds(oracle.Normalize(in)) && oracle.AllCapitalizable(oracle.Normalize(in))); try++ {
			in = wlInput(r, 2, 6, true, false) // two entries sharing a title-cased form make the record ambiguous
		}
		backing := make([]string, len(in), len(in)+2)
		copy(backing, in)
		backing[:cap(backing)][len(in)] = "tail"
		wl, err := spg.NewWordList(backing)
		if err != nil {
			continue
		}
		pool.lists = append(pool.lists, wl)
		pool.inputs = append(pool.inputs, backing)
		pool.origs = append(pool.origs, append([]string(nil), backing...))
	}
	if len(pool.lists) == 0 {
		return
	}
	sepRec := spg.CharRecipe{Length: r.Range(1, 2), AllowChars: []string{"xy", "+=-", "12語"}[r.Intn(3)]}
	switch r.Intn(5) {
	case 0: // a separator recipe that can never be honoured: its function yields "" every time
		sepRec = spg.CharRecipe{Length: 1, Require: spg.Digits | spg.Symbols}
	case 1: // empty alphabet
		sepRec = spg.CharRecipe{Length: 2}
	case 2: // with a requirement
		sepRec = spg.CharRecipe{Length: 2, AllowChars: "ab", RequireSets: []string{"1"}}
	}
	sharedSF := spg.NewSFFunction(sepRec)
	nwl := r.Range(1, 2)
	for i := 0; i < nwl; i++ {
		li := r.Intn(len(pool.lists))
		m := WLCase{Words: append([]string(nil), pool.origs[li]...), Length: r.Range(1, 5), Scheme: schemes[r.Intn(5)], SepKind: "char", SepChar: []string{"", "-", "語"}[r.Intn(3)]}
		rec := spg.NewWLRecipe(m.Length, pool.lists[li])
		rec.Capitalize = spg.CapScheme(m.Scheme)
		rec.SeparatorChar = m.SepChar
		if r.Bool() {
			m.SepKind, m.sepRec = "constructed", sepRec
			d := descChar(sepRec)
			m.SepRec = &d
			rec.SeparatorFunc = sharedSF // shared between recipes
		}
		pool.wls = append(pool.wls, &c15WL{rec: rec, list: pool.lists[li], input: pool.inputs[li], model: m})
	}

	var ops []c15Op
	var results []string
	script := func() []uint32 {
		s := make([]uint32, r.Range(4, 24))
		for i := range s {
			s[i] = r.U32()
		}
		return s
	}
	prevCalls := 0
	stalls := 0
	for n := 0; n < nops; n++ {
		// ---- caller-side update?
		if r.Chance(1, 4) {
			if r.Bool() && len(pool.chars) > 0 {
				ch := pool.chars[r.Intn(len(pool.chars))]
				switch r.Intn(7) {
				case 0:
					ch.rec.Length = r.Range(1, 7)
				case 1:
					ch.rec.Allow = spg.CTFlag(r.Intn(16))
				case 2:
					ch.rec.Exclude = spg.CTFlag([]int{0, 16, 4}[r.Intn(3)])
				case 3:
					ch.rec.AllowChars = subsetOf(r, oracle.Chars("abcxyz019é語"), 1, 6)
				case 4:
					ch.rec.ExcludeChars = subsetOf(r, oracle.Chars("abcxyz019"), 0, 2)
				case 5: // in-place edit of the backing array
					if len(ch.rec.RequireSets) > 0 {
						v := subsetOf(r, oracle.Chars("abxy01"), 1, 2)
						if r.Chance(1, 4) {
							v = ""
						}
						ch.rec.RequireSets[r.Intn(len(ch.rec.RequireSets))] = v
					}
				case 6:
					ch.rec.Require = spg.CTFlag([]int{0, 4, 8}[r.Intn(3)])
				}
				c.Count("field_updates", 1)
			} else if len(pool.wls) > 0 {
				w := pool.wls[r.Intn(len(pool.wls))]
				if r.Chance(1, 4) { // the caller goes on with a value copy of the recipe
					cp := *w.rec
					w.rec = &cp
					c.Count("recipe_value_copies", 1)
				}
				switch r.Intn(5) {
				case 0:
					w.rec.Length = r.Range(1, 6)
					w.model.Length = w.rec.Length
				case 1:
					w.model.Scheme = schemes[r.Intn(5)]
					w.rec.Capitalize = spg.CapScheme(w.model.Scheme)
				case 2:
					wasFunc := w.model.SepKind != "char"
					w.model.SepKind, w.model.SepChar, w.model.SepRec = "char", []string{"", "_", "¡"}[r.Intn(3)], nil
					w.rec.SeparatorChar = w.model.SepChar
					if wasFunc { // a caller who never set a function only assigns the character
						w.rec.SeparatorFunc = nil
					}
				case 3:
					name := presetNames[r.Intn(len(presetNames))]
					w.model.SepKind, w.model.Preset, w.model.SepRec = "preset", name, nil
					w.rec.SeparatorFunc = presetByName[name]
				case 4: // swap the list
					li := r.Intn(len(pool.lists))
					nr := spg.NewWLRecipe(w.rec.Length, pool.lists[li])
					nr.Capitalize, nr.SeparatorChar, nr.SeparatorFunc = w.rec.Capitalize, w.rec.SeparatorChar, w.rec.SeparatorFunc
					w.rec, w.list, w.input = nr, pool.lists[li], pool.inputs[li]
					w.model.Words = append([]string(nil), pool.origs[li]...)
				}
				c.Count("field_updates", 1)
			}
		}
		// ---- the caller reuses the slice it once built a list from (the list is documented to be its own copy)
		if r.Chance(1, 10) {
			li := r.Intn(len(pool.inputs))
			in := pool.inputs[li]
			in[r.Intn(len(in))] = []string{"scribble", "Zulu", "0", "apple"}[r.Intn(4)]
			if r.Chance(1, 3) {
				for j := range in {
					in[j] = fmt.Sprintf("reused%d", j)
				}
			}
			c.Count("caller_slice_reuses", 1)
		}
		// ---- the process environment changes now and then (the fresh process below starts from another one)
		if r.Chance(1, 8) {
			n := envs[r.Intn(len(envs))]
			if r.Chance(1, 4) {
				os.Unsetenv(n)
			} else {
				os.Setenv(n, envValues[r.Intn(len(envValues))])
			}
			c.Count("environment_changes", 1)
		}
		// ---- the caller turns the package-level knobs now and then
		if r.Chance(1, 12) {
			kn := c13Knobs(r)
			spg.MaxTrials, spg.MaxFailRate = kn.Trials, kn.FailRate
			c.Count("knob_updates", 1)
		}
		// ---- a call
		var op c15Op
		var cr *spg.CharRecipe
		var wr *spg.WLRecipe
		var wl *spg.WordList
		var sf spg.SFFunction
		switch r.Intn(10) {
		case 0, 1, 2, 3:
			if len(pool.chars) == 0 {
				continue
			}
			ch := pool.chars[r.Intn(len(pool.chars))]
			cr = ch.rec
			op = c15Op{Kind: "char", Char: descChar(*ch.rec), Call: []string{"Generate", "Generate", "Entropy", "Alphabet", "SuccessProbability"}[r.Intn(5)]}
			op.Char.RequireSets = append([]string(nil), op.Char.RequireSets...)
			if op.Call == "Generate" {
				op.Script = script()
			}
		case 4, 5, 6, 7:
			w := pool.wls[r.Intn(len(pool.wls))]
			wr, wl = w.rec, w.list
			m := w.model
			op = c15Op{Kind: "wl", WL: &m, Call: []string{"Generate", "Generate", "Entropy", "Size"}[r.Intn(4)]}
			if op.Call != "Size" {
				op.Script = script()
			}
		default:
			m := WLCase{SepKind: "preset", Preset: presetNames[r.Intn(len(presetNames))]}
			sf = presetByName[m.Preset]
			if r.Bool() {
				m = WLCase{SepKind: "constructed", sepRec: sepRec}
				d := descChar(sepRec)
				m.SepRec = &d
				sf = sharedSF
			}
			op = c15Op{Kind: "sep", WL: &m, Call: "call", Script: script()}
		}
		op.Trials, op.Fail = spg.MaxTrials, spg.MaxFailRate
		// ---- now and then the call before this one was cut short by a failing source (the caller recovered)
		if op.Script != nil && r.Chance(1, 10) {
			ab := op
			ab.FaultAt = r.Range(1, 6)
			fin, _ := runBounded(60*time.Second, func() {
				defer func() {
					if rr := recover(); rr != nil {
						tape.Restore()
					}
				}()
				c15Exec(ab, cr, wr, wl, sf)
			})
			c.Exec(1)
			c.Count("calls_aborted_by_a_failing_source", 1)
			if !fin {
				c.Inconclusive("a call with a failing source did not return")
				c.Poison()
				return
			}
		}
		var before c15Snap // (reading the lists out draws from the source: the first library work after an aborted call)
		if fin, blocked := runBounded(60*time.Second, func() { before = pool.snapshot() }); !fin {
			c.Poison()
			if blocked != "" {
				c.Violate("call-blocks-because-of-earlier-calls", fmt.Sprintf("after a call that a failing source cut short (the caller recovered), the next generation never returns: %s", blocked),
					map[string]interface{}{"position": n, "blocked": blocked})
			} else {
				c.Inconclusive("reading the pool's lists out had not finished after 60 s and was not seen blocked")
			}
			return
		}
		res := ""
		fin, blocked := runBounded(60*time.Second, func() {
			defer func() {
				if rr := recover(); rr != nil {
					tape.Restore()
					res = fmt.Sprintf("HARNESS-OBSERVED-PANIC:%v", rr)
				}
			}()
			res = c15Exec(op, cr, wr, wl, sf)
		})
		if !fin {
			c.Poison()
			ob, _ := json.Marshal(op)
			if blocked != "" {
				c.Violate("call-blocks-because-of-earlier-calls", fmt.Sprintf("op %d of a history (%s.%s) never returns: %s; the same call in a fresh process returns. op=%s", n, op.Kind, op.Call, blocked, ob),
					map[string]interface{}{"op": op, "position": n, "blocked": blocked})
			} else {
				c.Inconclusive(fmt.Sprintf("op %d of a history (%s.%s) had not returned after 60 s and was not seen blocked", n, op.Kind, op.Call))
			}
			return
		}
		after := pool.snapshot()
		c.Exec(1)
		c.Count("calls_"+op.Call, 1)
		// the same call once more, with a source that blocks for a while at one of its reads: time is not an input
		if op.Script != nil && (op.Call == "Generate" || op.Call == "call") && stalls < 1 && c15StallBudget > 0 && r.Chance(1, 12) && !strings.HasPrefix(res, "HARNESS-OBSERVED-PANIC") {
			stalls++
			c15StallBudget--
			slow := op
			slow.StallAt = r.Range(1, 3)
			res2 := ""
			func() {
				defer func() {
					if rr := recover(); rr != nil {
						tape.Restore()
						res2 = fmt.Sprintf("HARNESS-OBSERVED-PANIC:%v", rr)
					}
				}()
				res2 = c15Exec(slow, cr, wr, wl, sf)
			}()
			c.Exec(1)
			c.Count("calls_repeated_with_a_blocking_source", 1)
			if res2 != res {
				ob, _ := json.Marshal(op)
				c.Violate("result-depends-on-elapsed-time", fmt.Sprintf("op %d of a history (%s.%s): result %s; the same call on the same stream with the source blocking 300 ms at read %d gives %s. op=%s", n, op.Kind, op.Call, abbreviate(res), slow.StallAt, abbreviate(res2), ob),
					map[string]interface{}{"op": op, "result": res, "with_blocking_source": res2, "stalled_read": slow.StallAt})
				return
			}
		}
		if !reflect.DeepEqual(before, after) {
			what := "a public field, caller slice or word list"
			switch {
			case !reflect.DeepEqual(before.ReqFull, after.ReqFull) || !reflect.DeepEqual(before.Chars, after.Chars):
				what = "a character recipe's public fields or RequireSets backing array"
			case !reflect.DeepEqual(before.Readouts, after.Readouts):
				what = "a word list"
			case !reflect.DeepEqual(before.Inputs, after.Inputs):
				what = "the caller's input slice"
			case before.Trials != after.Trials || before.FailRate != after.FailRate:
				what = "MaxTrials/MaxFailRate"
			}
			ob, _ := json.Marshal(op)
			c.Violate("call-modified-state", fmt.Sprintf("%s.%s modified %s (op %d of the history): %s", op.Kind, op.Call, what, n, ob),
				map[string]interface{}{"op": op, "before": fmt.Sprintf("%+v", before), "after": fmt.Sprintf("%+v", after)})
			return
		}
		if prevCalls > 0 {
			ob, _ := json.Marshal(op)
			c.Distinct("nontrivial", string(ob))
		}
		prevCalls++
		ops = append(ops, op)
		results = append(results, res)
	}
	// ---- passwords returned during the history must still be what they were
	for _, k := range c15Retained {
		now := tokRecs(k.p)
		same := len(now) == len(k.toks) && math.Float32bits(k.p.Entropy) == k.ent
		for i := 0; same && i < len(now); i++ {
			same = now[i] == k.toks[i]
		}
		if !same {
			c.Violate("returned-password-changed-later", fmt.Sprintf("a password returned earlier in the history (%v) reads %v at the end of the history", abbreviateToks(k.toks), abbreviateToks(now)), nil)
			return
		}
	}
	c.Count("retained_passwords_rechecked", int64(len(c15Retained)))
	for _, k := range c15RetainedErrs {
		if now := k.err.Error(); now != k.text {
			c.Violate("returned-error-changed-later", fmt.Sprintf("an error returned earlier in the history read %q then and reads %q at the end of the history", abbreviate(k.text), abbreviate(now)), nil)
			return
		}
	}
	c.Count("retained_errors_rechecked", int64(len(c15RetainedErrs)))
	// ---- history independence: the same calls on fresh values in a fresh process
	self, err := os.Executable()
	if err != nil {
		c.Inconclusive("cannot find own executable")
		return
	}
	payload, _ := json.Marshal(ops)
	cmd := exec.Command(self, "c15probe")
	cmd.Stdin = bytes.NewReader(payload)
	// the fresh process starts from a different environment than any the history saw: every name set,
	// each to a value drawn for this history
	cmd.Env = os.Environ()
	for _, n := range envs {
		cmd.Env = append(cmd.Env, n+"="+envValues[r.Intn(len(envValues))])
	}
	out, err := cmd.Output()
	if err != nil {
		c.Inconclusive(fmt.Sprintf("child process failed: %v", err))
		return
	}
	var fresh []string
	if json.Unmarshal(out, &fresh) != nil || len(fresh) != len(ops) {
		c.Inconclusive("child output unreadable")
		return
	}
	c.Exec(len(fresh))
	c.Count("fresh_process_replays", int64(len(fresh)))
	for i := range ops {
		if fresh[i] != results[i] {
			ob, _ := json.Marshal(ops[i])
			c.Violate("result-depends-on-history", fmt.Sprintf("op %d of a history (%s.%s): result %s; the same call with the same stream on a freshly built recipe with the same field values gives %s. op=%s", i, ops[i].Kind, ops[i].Call, abbreviate(results[i]), abbreviate(fresh[i]), ob),
				map[string]interface{}{"op": ops[i], "in_history": results[i], "fresh": fresh[i], "position": i})
			return
		}
	}
	c.Count("histories_ok", 1)
	if sample && len(ops) > 2 {
		c.Sample(map[string]interface{}{"history_length": len(ops), "first_ops": ops[:3], "first_results": results[:3]})
	}
}

func abbreviate(s string) string {
	if len(s) > 160 {
		return s[:160] + "..."
	}
	return s
}
