package main

import (
	"encoding/hex"
	"encoding/json"
	"fmt"
	"math"
	"math/big"
	"os"
	"os/exec"
	"path/filepath"
	"runtime"
	"sort"
	"strings"
	"sync"
	"sync/atomic"
	"syscall"
	"time"
	"unicode/utf8"

	spg "go.1password.io/spg"

	"verifharness/explore"
	"verifharness/gen"
	"verifharness/oracle"
	"verifharness/tape"
)

// ---------------------------------------------------------------------------
// running the real generators under a tape

// GenOut is the observable result of one Generate call.
type GenOut struct {
	Pw    *spg.Password
	Err   error
	Panic interface{}
	// SourceFailed: a read of the scripted source was answered with an error during the call
	SourceFailed bool
}

func (g GenOut) Kind() string {
	switch {
	case g.Panic != nil:
		return "panic"
	case g.Err != nil:
		return "error"
	case g.Pw != nil:
		return "password"
	}
	return "nil"
}

// SourcePanic reports whether the panic is the library's reaction to a failing
// random source (its documented fail-closed path), not a recipe problem.
func (g GenOut) SourcePanic() bool {
	if g.Panic == nil {
		return false
	}
	if g.SourceFailed {
		return true
	}
	s := fmt.Sprint(g.Panic)
	return strings.Contains(s, "tape:") || strings.Contains(s, "PRNG")
}

// genFn is a Generate call on some recipe.
type genFn func() (*spg.Password, error)

// generateFn turns a recipe (value or pointer) into a Generate call on an
// addressable variable, so that the harness compiles whatever the receiver
// kind of the library's methods is.
func generateFn(g interface{}) genFn {
	switch v := g.(type) {
	case genFn:
		return v
	case spg.CharRecipe:
		rec := v
		return func() (*spg.Password, error) { return rec.Generate() }
	case *spg.CharRecipe:
		return func() (*spg.Password, error) { return v.Generate() }
	case spg.WLRecipe:
		rec := v
		return func() (*spg.Password, error) { return rec.Generate() }
	case *spg.WLRecipe:
		return func() (*spg.Password, error) { return v.Generate() }
	}
	panic(fmt.Sprintf("generateFn: unsupported %T", g))
}

func runGen(g interface{}, t *tape.Tape) (out GenOut) {
	f := generateFn(g)
	if t != nil {
		t.Install()
	}
	before := atomic.LoadInt64(&tape.ErrorsDelivered)
	defer func() {
		if r := recover(); r != nil {
			out = GenOut{Panic: r, SourceFailed: atomic.LoadInt64(&tape.ErrorsDelivered) != before}
		}
		tape.Restore()
	}()
	p, err := f()
	return GenOut{Pw: p, Err: err, SourceFailed: atomic.LoadInt64(&tape.ErrorsDelivered) != before}
}

// TokRec is a token as recorded in outcomes and samples.
type TokRec struct {
	V string `json:"v"`
	T int    `json:"t"` // 1 atom, 0 separator
}

// MarshalJSON keeps token values that are not valid UTF-8 exact (hex), so that outcome keys never merge
// two different byte strings.
func (t TokRec) MarshalJSON() ([]byte, error) {
	if utf8.ValidString(t.V) {
		return json.Marshal(struct {
			V string `json:"v"`
			T int    `json:"t"`
		}{t.V, t.T})
	}
	return json.Marshal(struct {
		VX string `json:"vx"`
		T  int    `json:"t"`
	}{hex.EncodeToString([]byte(t.V)), t.T})
}

func (t *TokRec) UnmarshalJSON(b []byte) error {
	var aux struct {
		V  string `json:"v"`
		VX string `json:"vx"`
		T  int    `json:"t"`
	}
	if err := json.Unmarshal(b, &aux); err != nil {
		return err
	}
	t.V, t.T = aux.V, aux.T
	if aux.VX != "" {
		raw, err := hex.DecodeString(aux.VX)
		if err != nil {
			return err
		}
		t.V = string(raw)
	}
	return nil
}

// allowInvalidUTF8 is set per property: strings that are not valid UTF-8 (Latin-1 word-list files, stray
// bytes in custom character strings) are legitimate inputs, but cases whose inputs travel to child
// processes as JSON cannot carry them.
var allowInvalidUTF8 = false

var invalidWordPool = []string{"caf\xe9", "\xe9clair", "na\xefve", "x\xff", "x\xff\xfe", "\xfcber", "ok"}

func tokRecs(p *spg.Password) []TokRec {
	ts := p.Tokens()
	out := make([]TokRec, len(ts))
	for i, t := range ts {
		out[i] = TokRec{t.Value(), int(t.Type())}
	}
	return out
}

func refToks(p *spg.Password) []oracle.Tok {
	ts := p.Tokens()
	out := make([]oracle.Tok, len(ts))
	for i, t := range ts {
		out[i] = oracle.Tok{V: t.Value(), T: byte(t.Type())}
	}
	return out
}

// outcomeKey encodes what a caller can observe of a generation.
func outcomeKey(g GenOut) string {
	switch g.Kind() {
	case "password":
		b, _ := json.Marshal(tokRecs(g.Pw))
		return "PW:" + string(b)
	case "error":
		return "ERR"
	case "panic":
		if g.SourcePanic() {
			return "SRCPANIC"
		}
		return "PANIC:" + fmt.Sprint(g.Panic)
	}
	return "NIL"
}

func pwString(key string) string { // "PW:[...]" -> concatenated string
	var ts []TokRec
	json.Unmarshal([]byte(strings.TrimPrefix(key, "PW:")), &ts)
	s := ""
	for _, t := range ts {
		s += t.V
	}
	return s
}

func keyToks(key string) []TokRec {
	var ts []TokRec
	json.Unmarshal([]byte(strings.TrimPrefix(key, "PW:")), &ts)
	return ts
}

// knobs sets the package-level retry knobs and returns a restore function.
func knobs(trials int, failRate float64) func() {
	ot, of := spg.MaxTrials, spg.MaxFailRate
	spg.MaxTrials, spg.MaxFailRate = trials, failRate
	return func() { spg.MaxTrials, spg.MaxFailRate = ot, of }
}

// exploreGen explores the decision tree of g.Generate().
func exploreGen(g interface{}, lim explore.Limits, onLeaf func(GenOut, *tape.Tape)) *explore.Result {
	lim.Hostile = true
	return explore.Run(lim, func(t *tape.Tape) explore.Outcome {
		out := runGen(g, t)
		if !t.Cut && !t.Aux && onLeaf != nil {
			onLeaf(out, t)
		}
		return explore.Outcome{Key: outcomeKey(out)}
	})
}

// ---------------------------------------------------------------------------
// recipe descriptions (for samples, replay files)

type CharDesc struct {
	Length       int      `json:"length"`
	Allow        uint32   `json:"allow"`
	Require      uint32   `json:"require"`
	Exclude      uint32   `json:"exclude"`
	AllowChars   string   `json:"allow_chars,omitempty"`
	RequireSets  []string `json:"require_sets,omitempty"`
	ExcludeChars string   `json:"exclude_chars,omitempty"`
}

func descChar(r spg.CharRecipe) CharDesc {
	return CharDesc{r.Length, uint32(r.Allow), uint32(r.Require), uint32(r.Exclude), r.AllowChars, r.RequireSets, r.ExcludeChars}
}

func (d CharDesc) String() string { b, _ := json.Marshal(d); return string(b) }

// ---------------------------------------------------------------------------
// generators of character recipes

var charPools = []string{
	"abcdef", "abcxyz", "AbCdEf", "0123", "01OIl5S", "!@.-_*", "éßñüø", "語漢字かな", "🙂🚀𝒳𝔘", "áè", "aé語🙂", " \t~|",
	"٣५５a7", "ÉΩЖbZ", "λжßQz", "¡¿§!x", // characters that share a Unicode category, but not a class, with the built-in classes
}

func subsetOf(r *gen.R, chars []string, min, max int) string {
	if max > len(chars) {
		max = len(chars)
	}
	if min > max {
		min = max
	}
	n := r.Range(min, max)
	p := r.Perm(len(chars))
	s := ""
	for i := 0; i < n; i++ {
		s += chars[p[i]]
	}
	return s
}

func dupSome(r *gen.R, s string) string {
	cs := oracle.Chars(s)
	if len(cs) == 0 {
		return s
	}
	for k := r.Intn(3); k > 0; k-- {
		s += cs[r.Intn(len(cs))]
	}
	return s
}

// smallCharRecipe generates a recipe whose reference alphabet has at most
// maxAlpha characters, with 0..maxReq required sets in hostile overlap patterns.
func smallCharRecipe(r *gen.R, maxAlpha, maxLen, maxReq int) spg.CharRecipe {
	for try := 0; ; try++ {
		pool := oracle.Chars(charPools[r.Intn(len(charPools))])
		if r.Chance(1, 4) {
			pool = append(pool, oracle.Chars(charPools[r.Intn(len(charPools))])...)
		}
		rec := spg.CharRecipe{Length: r.Range(1, maxLen)}
		rec.AllowChars = dupSome(r, subsetOf(r, pool, 0, maxAlpha))
		nreq := r.Weighted([]int{5, 4, 3, 2})
		if nreq > maxReq {
			nreq = maxReq
		}
		pattern := r.Intn(6)
		var prev string
		for i := 0; i < nreq; i++ {
			var s string
			switch pattern {
			case 0: // independent subsets (overlaps by chance)
				s = subsetOf(r, pool, 1, 3)
			case 1: // identical sets
				if prev == "" {
					prev = subsetOf(r, pool, 1, 2)
				}
				s = prev
			case 2: // chain ab, bc, cd
				if i+1 < len(pool) {
					s = pool[i] + pool[i+1]
				} else {
					s = pool[0]
				}
			case 3: // nested
				if prev == "" {
					prev = subsetOf(r, pool, 2, 3)
					s = prev
				} else {
					s = subsetOf(r, oracle.Chars(prev), 1, 2)
				}
			case 4: // single characters
				s = pool[r.Intn(len(pool))]
			default: // disjoint-ish from the allowed characters
				s = subsetOf(r, pool, 1, 2)
			}
			if r.Chance(1, 5) {
				s = dupSome(r, s)
			}
			if r.Chance(1, 8) { // as many characters (with repeats) as the code-point span: "aac", "13355", "addd"
				lo := rune('a' + r.Intn(20))
				span := r.Range(3, 5)
				s = string(lo) + string(lo+rune(span-1))
				for len(oracle.Chars(s)) < span {
					s += string(lo)
				}
				rec.AllowChars += string(lo + 1) // a character of the gap is allowed
			}
			rec.RequireSets = append(rec.RequireSets, s)
		}
		if r.Chance(1, 6) { // empty custom set (ignored by the documentation), at any position
			at := r.Intn(len(rec.RequireSets) + 1)
			rs := append([]string(nil), rec.RequireSets[:at]...)
			rs = append(rs, "")
			rec.RequireSets = append(rs, rec.RequireSets[at:]...)
		}
		if r.Chance(1, 3) {
			rec.ExcludeChars = subsetOf(r, pool, 1, 3)
		}
		// class flags, kept small through exclusion
		if r.Chance(1, 4) {
			switch r.Intn(4) {
			case 0:
				rec.Allow = spg.Digits
				rec.ExcludeChars += subsetOf(r, oracle.Chars("0123456789"), 5, 9)
				if r.Bool() {
					rec.AllowChars += "0077"
				}
			case 1:
				rec.Allow = spg.Symbols
				if r.Bool() {
					rec.AllowChars += "!!@"
				}
			case 2:
				rec.Require = spg.Symbols
				rec.ExcludeChars += subsetOf(r, oracle.Chars("!@.-_*"), 2, 5)
			case 3:
				rec.Allow = spg.Digits
				rec.Exclude = spg.Ambiguous
				rec.ExcludeChars += subsetOf(r, oracle.Chars("2346789"), 3, 6)
			}
			switch r.Intn(8) { // a class next to custom characters that look like members of it, or are excluded members of it
			case 0: // a required class and allowed characters of the same Unicode category outside the class
				rec.Allow, rec.Require, rec.Exclude = 0, spg.Digits, 0
				rec.ExcludeChars = subsetOf(r, oracle.Chars("0123456789"), 7, 9)
				rec.AllowChars = subsetOf(r, oracle.Chars("٣५５x"), 1, 3)
			case 1:
				rec.Allow, rec.Require, rec.Exclude = 0, spg.Uppers, 0
				rec.ExcludeChars = subsetOf(r, oracle.Chars("ABCDEFGHIJKLMNOPQRSTUVWXYZ"), 23, 25)
				rec.AllowChars = subsetOf(r, oracle.Chars("ÉΩЖq"), 1, 3)
			case 2:
				rec.Allow, rec.Require, rec.Exclude = 0, spg.Lowers, 0
				rec.ExcludeChars = subsetOf(r, oracle.Chars("abcdefghijklmnopqrstuvwxyz"), 23, 25)
				rec.AllowChars = subsetOf(r, oracle.Chars("λжßQ"), 1, 3)
			case 3: // a custom required set holding members of a class excluded by flag
				rec.Allow, rec.Require = 0, 0
				rec.Exclude = []spg.CTFlag{spg.Ambiguous, spg.Digits, spg.Ambiguous | spg.Symbols}[r.Intn(3)]
				rec.ExcludeChars = ""
				rec.AllowChars = subsetOf(r, oracle.Chars("abxy"), 1, 3)
				rec.RequireSets = []string{subsetOf(r, oracle.Chars("0123!@OI"), 2, 4) + "q"}
				if r.Bool() {
					rec.RequireSets = append(rec.RequireSets, subsetOf(r, oracle.Chars("15Sl.-z"), 1, 3)+"z")
				}
			}
			if r.Chance(1, 3) { // the Ambiguous class as something allowed or required, not only excluded
				switch r.Intn(3) {
				case 0:
					rec.Allow, rec.Exclude = spg.Ambiguous, 0
					rec.ExcludeChars = subsetOf(r, oracle.Chars("0O1Il5S"), 2, 4)
				case 1:
					rec.Require, rec.Exclude = spg.Ambiguous, 0
					rec.ExcludeChars = subsetOf(r, oracle.Chars("0O1Il5S"), 3, 5)
				default:
					rec.Require, rec.Exclude = spg.Ambiguous|spg.Digits, 0
					rec.ExcludeChars = "23467890O1"
				}
			}
		}
		if allowInvalidUTF8 && r.Chance(1, 12) {
			// stray bytes among the allowed characters (never in required or excluded strings, where the
			// meaning of "contains a character of the set" is not defined for them): each is a character
			rec.AllowChars += []string{"\xff\xfe", "\xe9\xe8\xfc", "\xfd\xff", "\xc3\xff"}[r.Intn(4)]
		}
		sem := oracle.CharSemOf(rec)
		if len(sem.Alphabet) <= maxAlpha || try > 200 {
			if len(sem.Alphabet) > maxAlpha {
				rec = spg.CharRecipe{Length: rec.Length, AllowChars: "abc"}
			}
			return rec
		}
	}
}

// anyCharRecipe generates a recipe of realistic size: arbitrary class flags
// and custom strings.
func anyCharRecipe(r *gen.R, maxLen int) spg.CharRecipe {
	rec := spg.CharRecipe{Length: r.Range(1, maxLen)}
	rec.Allow = spg.CTFlag(r.Intn(32))
	if r.Chance(2, 3) {
		rec.Require = spg.CTFlag(r.Intn(32))
		if r.Chance(1, 2) {
			rec.Require &= rec.Allow
		}
		if r.Chance(1, 2) { // keep the number of required classes small most of the time
			rec.Require &= spg.CTFlag(1 << uint(r.Intn(5)))
		}
	}
	if r.Chance(1, 2) {
		rec.Exclude = spg.CTFlag(r.Intn(32))
		if r.Chance(1, 2) {
			rec.Exclude &= spg.Ambiguous | spg.CTFlag(1<<uint(r.Intn(5)))
		}
	}
	if r.Chance(1, 2) {
		rec.AllowChars = dupSome(r, subsetOf(r, oracle.Chars(charPools[r.Intn(len(charPools))]), 0, 6))
	}
	if r.Chance(1, 3) {
		n := r.Range(1, 2)
		for i := 0; i < n; i++ {
			src := charPools[r.Intn(len(charPools))]
			if r.Chance(1, 3) {
				src = "0123456789"
			}
			rec.RequireSets = append(rec.RequireSets, subsetOf(r, oracle.Chars(src), 1, 3))
		}
	}
	if r.Chance(1, 3) {
		src := charPools[r.Intn(len(charPools))]
		if r.Chance(1, 2) {
			src = "abcdefABCDEF0123456789!@.-_*"
		}
		rec.ExcludeChars = subsetOf(r, oracle.Chars(src), 1, 4)
	}
	return rec
}

// nReqSets is the number of required sets the implementation will handle
// (custom non-empty + class bits): cost grows super-exponentially with it.
func nReqSets(rec spg.CharRecipe) int {
	n := 0
	for _, s := range rec.RequireSets {
		if s != "" {
			n++
		}
	}
	for b := 0; b < 5; b++ {
		if uint32(rec.Require)&(1<<uint(b)) != 0 {
			n++
		}
	}
	return n
}

// ---------------------------------------------------------------------------
// reference judgement of refusal (shared by C02, C13, C17)

// successP returns the exact single-attempt success probability count/total
// (nil when the alphabet is empty or the length is not positive).
func successP(sem oracle.CharSem) *big.Rat {
	if sem.Length < 1 || len(sem.Alphabet) == 0 {
		return nil
	}
	return new(big.Rat).SetFrac(sem.Count(sem.Length), sem.Total(sem.Length))
}

// refusalThreshold is p* = 1 - MaxFailRate^(1/MaxTrials).
func refusalThreshold(trials int, failRate float64) float64 {
	if failRate >= 1 {
		return 0
	}
	return 1 - math.Pow(failRate, 1/float64(trials))
}

// ---------------------------------------------------------------------------
// online monitor: a character password against its recipe (C03)

func checkCharPassword(sem oracle.CharSem, p *spg.Password) (class, msg string) {
	ts := p.Tokens()
	if len(ts) != sem.Length {
		return "token-count", fmt.Sprintf("%d tokens for Length %d", len(ts), sem.Length)
	}
	chars := make([]string, len(ts))
	var catB strings.Builder
	for i, t := range ts {
		if t.Type() != spg.AtomType {
			return "token-type", fmt.Sprintf("token %d has type %d, want atom", i, t.Type())
		}
		if oracle.CharCount(t.Value()) != 1 {
			return "token-not-one-char", fmt.Sprintf("token %d is %q", i, t.Value())
		}
		chars[i] = t.Value()
		catB.WriteString(t.Value())
	}
	cat := catB.String()
	if p.String() != cat {
		return "string-not-concatenation", fmt.Sprintf("String()=%q tokens=%q", p.String(), cat)
	}
	for i, c := range chars {
		if sem.Excluded[c] {
			return "excluded-character", fmt.Sprintf("position %d holds excluded character %q", i, c)
		}
		if !sem.In[c] {
			return "character-outside-alphabet", fmt.Sprintf("position %d holds %q, not allowed or required", i, c)
		}
	}
	if !sem.MeetsReq(chars) {
		return "requirement-missed", fmt.Sprintf("password %q misses a required set", cat)
	}
	return "", ""
}

// ---------------------------------------------------------------------------
// word lists

var wordPools = [][]string{
	{"apple", "pear", "plum", "fig", "kiwi", "lime", "date", "nut"},
	{"correct", "horse", "battery", "staple", "zebra", "quartz"},
	{"egy", "kettő", "három", "négy", "öt", "éa", "ñu", "über"},
	{"ǆa", "ǉb", "ßen", "ﬁx"},
	{"ice cream", "new york", "a b c", "x-ray", "o'neil", "rock_roll"},
	{"123", "4x", "7", "語", "漢字", "かな", "-", "_a"},
	{"Polish", "March", "Turkey", "Reading", "ÉA"},
	{"b", "a", "c", "d", "e"},
	{"4-door", "Ice cream", "5-o'clock", "7 up", "A b", "Élan vital", "9_to-five"},
	{"élan", "ősz", "ночь", "ωμέγα", "ñandú"},
	{"re\uFFFDplace", "100%", "a%sb", "'tis", "-ish", "(sic)", "iPhone", "mcDonald", "ſound"},
	{"e\u0301clair", "ςa", "σa", "אבג", "zero\u200dwidth", "nul\x00l", "ǈx", "ǆx"},
	{"foo", "foo\r", " foo", "foo ", "bar\n", "bar", "\tbaz", "baz"},
	{"x-ray", "X-ray", "X-Ray", "o'neil", "O'neil", "O'Neil", "42"},
	{"iris", "island", "igloo", "ırmak", "ijs", "index", "ﬁre", "ǆip"}, // first letters whose upper case depends on the locale in other systems
}

// wlInput generates an input slice for NewWordList.
//
//	twins: allow title-cased twins of listed words
//	caseless: allow words that do not change under title-casing
func wlInput(r *gen.R, minN, maxN int, twins, uncap bool) []string {
	n := r.Range(minN, maxN)
	words := []string{}
	seen := map[string]bool{}
	for tries := 0; len(words) < n && tries < 200; tries++ {
		pool := wordPools[r.Intn(len(wordPools))]
		w := pool[r.Intn(len(pool))]
		if r.Chance(1, 10) {
			w = w + pool[r.Intn(len(pool))]
		}
		if !uncap && oracle.Title(w) == w {
			continue
		}
		if seen[w] {
			continue
		}
		seen[w] = true
		words = append(words, w)
	}
	if len(words) == 0 {
		words = []string{"apple"}
	}
	if allowInvalidUTF8 && r.Chance(1, 10) { // entries of a Latin-1 file: bytes that are not valid UTF-8
		for k := r.Range(1, 3); k > 0; k-- {
			w := invalidWordPool[r.Intn(len(invalidWordPool))]
			if !seen[w] && (uncap || oracle.Title(w) != w) {
				seen[w] = true
				words = append(words, w)
			}
		}
	}
	if twins {
		for _, w := range append([]string(nil), words...) {
			if r.Chance(1, 3) {
				t := oracle.Title(w)
				if t != w && !seen[t] {
					seen[t] = true
					words = append(words, t)
				}
			}
		}
	}
	// duplicates and order
	if r.Chance(1, 3) {
		for k := r.Range(1, 3); k > 0; k-- {
			words = append(words, words[r.Intn(len(words))])
		}
	}
	return r.ShuffleStrings(words)
}

// readOutList reads the kept words of a list in index order through the
// public API: one-word passwords, scheme none, no separator, index script i.
func readOutList(wl *spg.WordList) ([]string, error) {
	rec := spg.NewWLRecipe(1, wl)
	n := int(rec.Size())
	out := make([]string, n)
	for i := 0; i < n; i++ {
		t := &tape.Tape{Script: []uint32{uint32(i)}}
		g := runGen(*rec, t)
		if g.Pw == nil {
			return nil, fmt.Errorf("read-out of word %d failed: %v %v", i, g.Err, g.Panic)
		}
		out[i] = g.Pw.String() // a single atom; an empty word yields no token but String() is still ""
	}
	return out, nil
}

func sortedCopy(ss []string) []string {
	out := append([]string(nil), ss...)
	sort.Strings(out)
	return out
}

func equalStrings(a, b []string) bool {
	if len(a) != len(b) {
		return false
	}
	for i := range a {
		if a[i] != b[i] {
			return false
		}
	}
	return true
}

func hasEmpty(ss []string) bool {
	for _, s := range ss {
		if s == "" {
			return true
		}
	}
	return false
}

func ratString(r *big.Rat) string {
	s := r.RatString()
	if len(s) > 80 {
		f, _ := r.Float64()
		return fmt.Sprintf("~%.6g (%d-bit denominator)", f, r.Denom().BitLen())
	}
	return s
}

// ---------------------------------------------------------------------------
// the process environment as a hostile input

// envPanel: variables that classically change what text-handling code does, and switches a library might grow.
var envPanel = []string{"LANG", "LC_ALL", "LC_CTYPE", "LANGUAGE", "TZ", "DEBUG", "VERBOSE", "TRACE"}

// envValues are what a hostile (or merely Turkish) environment holds.
var envValues = []string{"tr_TR.UTF-8", "1", "az_AZ.UTF-8", "true", "C", "debug", "lt_LT.UTF-8", "el_GR.UTF-8"}

var (
	envOnce       sync.Once
	envDiscovered []string
	envProbeNote  string
)

// envConsulted returns the names of the environment variables the library itself was observed to read while
// every exported entry point was driven once (cmd/envprobe, a test binary run with -test.testlogfile: the Go
// runtime's own log of os.Getenv/LookupEnv calls), minus those an empty test run reads. A library that is a
// function of its recipe and its random bytes reads none.
func envConsulted() ([]string, string) {
	envOnce.Do(func() {
		bin := os.Getenv("VCHECK_ENVPROBE")
		if bin == "" {
			envProbeNote = "VCHECK_ENVPROBE not set"
			return
		}
		dir, err := os.MkdirTemp(os.Getenv("VCHECK_SCRATCH"), "envprobe-")
		if err != nil {
			envProbeNote = err.Error()
			return
		}
		defer os.RemoveAll(dir)
		read := func(test string) (map[string]bool, error) {
			logf := filepath.Join(dir, test+".log")
			cmd := exec.Command(bin, "-test.run", "^"+test+"$", "-test.testlogfile="+logf)
			cmd.Dir = dir
			if out, err := cmd.CombinedOutput(); err != nil {
				return nil, fmt.Errorf("%s: %v: %s", test, err, firstLine(string(out)))
			}
			b, err := os.ReadFile(logf)
			if err != nil {
				return nil, err
			}
			names := map[string]bool{}
			for _, line := range strings.Split(string(b), "\n") {
				if strings.HasPrefix(line, "getenv ") {
					names[strings.TrimPrefix(line, "getenv ")] = true
				}
			}
			return names, nil
		}
		base, err := read("TestBaseline")
		if err != nil {
			envProbeNote = err.Error()
			return
		}
		probe, err := read("TestProbe")
		if err != nil {
			envProbeNote = err.Error()
			return
		}
		for n := range probe {
			if !base[n] && n != "" && !strings.HasPrefix(n, "GO") {
				envDiscovered = append(envDiscovered, n)
			}
		}
		sort.Strings(envDiscovered)
		envProbeNote = "ok"
	})
	return envDiscovered, envProbeNote
}

func firstLine(s string) string {
	if i := strings.IndexByte(s, '\n'); i >= 0 {
		return s[:i]
	}
	return s
}

// envNames is the panel plus whatever the library was seen to consult.
func envNames() []string {
	d, _ := envConsulted()
	out := append([]string(nil), envPanel...)
	for _, n := range d {
		dup := false
		for _, p := range envPanel {
			dup = dup || p == n
		}
		if !dup {
			out = append(out, n)
		}
	}
	return out
}

// envRestore remembers the current values of the names and returns the function that puts them back.
func envRestore(names []string) func() {
	type kv struct {
		v  string
		ok bool
	}
	old := map[string]kv{}
	for _, n := range names {
		v, ok := os.LookupEnv(n)
		old[n] = kv{v, ok}
	}
	return func() {
		for n, o := range old {
			if o.ok {
				os.Setenv(n, o.v)
			} else {
				os.Unsetenv(n)
			}
		}
	}
}

// brokenStderr makes standard error unwritable until the returned function is called: os.Stderr is a closed file
// and descriptor 2 is /dev/full. A library whose results depend on whether a notice could be delivered shows it.
func brokenStderr() func() {
	oldVar := os.Stderr
	r, w, err := os.Pipe()
	if err != nil {
		return func() {}
	}
	r.Close()
	w.Close()
	os.Stderr = w // a closed file: every write fails
	saved, err1 := syscall.Dup(2)
	full, err2 := os.OpenFile("/dev/full", os.O_WRONLY, 0)
	if err1 == nil && err2 == nil {
		syscall.Dup2(int(full.Fd()), 2)
	}
	return func() {
		os.Stderr = oldVar
		if err1 == nil {
			syscall.Dup2(saved, 2)
			syscall.Close(saved)
		}
		if err2 == nil {
			full.Close()
		}
	}
}

// runBounded runs f on a goroutine of its own and waits for it. If f has not returned after the grace period,
// the verdict is not taken from the clock: all goroutine stacks are sampled twice, two seconds apart, and only
// if f's goroutine sits in the same blocked state (waiting for a lock, a channel, a condition) inside the
// library both times is it reported as blocked. Anything else that is merely slow is "unfinished" (inconclusive).
func runBounded(grace time.Duration, f func()) (finished bool, blocked string) {
	done := make(chan struct{})
	go func() {
		defer close(done)
		f()
	}()
	select {
	case <-done:
		return true, ""
	case <-time.After(grace):
	}
	sample := func() (state, frames string) {
		buf := make([]byte, 1<<20)
		buf = buf[:runtime.Stack(buf, true)]
		for _, g := range strings.Split(string(buf), "\n\n") {
			if !strings.Contains(g, "runBounded.func1") || !strings.Contains(g, "go.1password.io/spg") {
				continue
			}
			head := g
			if i := strings.IndexByte(g, '\n'); i >= 0 {
				head = g[:i]
			}
			st := ""
			if a, b := strings.IndexByte(head, '['), strings.IndexByte(head, ']'); a >= 0 && b > a {
				st = head[a+1 : b]
				if j := strings.IndexByte(st, ','); j >= 0 {
					st = st[:j]
				}
			}
			var fr []string
			for _, line := range strings.Split(g, "\n")[1:] {
				if !strings.HasPrefix(line, "\t") {
					fr = append(fr, strings.SplitN(line, "(", 2)[0])
				}
			}
			return st, strings.Join(fr, " < ")
		}
		return "", ""
	}
	s1, f1 := sample()
	select {
	case <-done:
		return true, ""
	case <-time.After(2 * time.Second):
	}
	s2, f2 := sample()
	waiting := map[string]bool{"sync.Mutex.Lock": true, "sync.RWMutex.Lock": true, "sync.RWMutex.RLock": true, "semacquire": true, "chan receive": true,
		"chan send": true, "select": true, "sync.Cond.Wait": true, "sync.WaitGroup.Wait": true, "select (no cases)": true, "chan receive (nil chan)": true}
	if s1 != "" && s1 == s2 && f1 == f2 && waiting[s1] {
		return false, fmt.Sprintf("goroutine state %q at %s", s1, head(f1, 400))
	}
	return false, ""
}
