package main

import (
	"crypto/rand"
	"fmt"
	"math"
	"os"
	"path/filepath"
	"regexp"
	"runtime"
	"sort"
	"strings"
	"sync"
	"sync/atomic"
	"time"

	spg "go.1password.io/spg"

	"verifharness/oracle"
	"verifharness/tape"
)

// C14 — recipes, word lists and separator functions are safe to share across goroutines.
//
// The harness is built with -race for this property. Each case is a stress
// scenario: G goroutines share values and call the method mix on real OS
// randomness read through a pass-through reader that inserts scheduling
// points. The parent counts the race detector's report blocks.

const c14Scenarios = 8

func c14Repeats(tier string) int {
	if tier == "thorough" {
		return 120
	}
	return 5
}

func init() {
	register(&Prop{
		ID:    "C14",
		Level: "exploration",
		Rule:  "8 sharing scenarios (shared *CharRecipe with requirements; CharRecipe variable captured by reference; *WLRecipe for each scheme with preset separators; one *WordList under several recipes; every package preset called directly; shared constructed NewSFFunction; shipped lists; mixed everything) x G in {4,16,64} goroutines x 5 (quick) / 40 (thorough) repetitions, method mix Generate/Entropy/Alphabet/SuccessProbability/Size/preset call, under the Go race detector with scheduling points injected at every entropy read. Every concurrent result is validated against the recipe and its single-threaded entropy. evaluations = concurrent API calls; distinct_nontrivial = distinct (scenario, overlapping method pair) combinations actually observed in flight together",
		Assumptions: []string{
			"the race detector reports happens-before races among the accesses the workload actually performs; interleavings not produced are not covered",
			"harness state shared between goroutines is limited to atomics and mutex-protected slices, shown race-silent on the unchanged tree",
		},
		MinEvals: 2000,
		NumCases: func(tier string, seed uint64) int { return c14Scenarios * c14Repeats(tier) },
		RunCase:  c14Case,
		Post:     c14Post,
		// a worker killed by the runtime ("fatal error: concurrent map read and map write") refutes the property
		CrashIsViolation: true,
	})
}

// yieldReader passes OS randomness through and yields at every read.
type yieldReader struct{ n uint64 }

func (y *yieldReader) Read(b []byte) (int, error) {
	k := atomic.AddUint64(&y.n, 1)
	if k%3 == 0 {
		runtime.Gosched()
	}
	if k%257 == 0 {
		time.Sleep(20 * time.Microsecond)
	}
	n, err := tape.OSReader().Read(b)
	if k%7 == 0 && err == nil && n == len(b) {
		// every seventh read delivers all-ones: as good a stream as any, and one in which the bounded draw
		// meets rejected raw words all the time instead of once in a hundred million draws
		for i := range b {
			b[i] = 0xFF
		}
	}
	return n, err
}

var c14Methods = []string{"Generate", "Entropy", "Alphabet", "SuccessProbability", "Size", "Separator", "NewWordList"}

type c14Mon struct {
	mu       sync.Mutex
	viol     []Violation
	calls    int64
	inflight [8]int32
	pairs    sync.Map // "m1+m2" -> true
}

func (m *c14Mon) enter(method int) {
	atomic.AddInt64(&m.calls, 1)
	for j := range c14Methods {
		if atomic.LoadInt32(&m.inflight[j]) > 0 {
			a, b := c14Methods[method], c14Methods[j]
			if a > b {
				a, b = b, a
			}
			m.pairs.Store(a+"+"+b, true)
		}
	}
	atomic.AddInt32(&m.inflight[method], 1)
}
func (m *c14Mon) leave(method int) { atomic.AddInt32(&m.inflight[method], -1) }
func (m *c14Mon) violate(class, msg string) {
	m.mu.Lock()
	if len(m.viol) < 5 {
		m.viol = append(m.viol, Violation{Class: class, Msg: msg})
	}
	m.mu.Unlock()
}

// guarded runs f, converting a panic into a violation.
func (m *c14Mon) guarded(method int, what string, f func()) {
	m.enter(method)
	defer m.leave(method)
	defer func() {
		if r := recover(); r != nil {
			m.violate("panic-under-concurrency", fmt.Sprintf("%s panicked under concurrency: %v", what, r))
		}
	}()
	f()
}

// agree collects the values concurrent callers obtained for something that
// must be a single value; nothing is computed beforehand on the shared object
// (no warm-up: the first use of a value must itself be safe under concurrency).
type agree struct {
	mu   sync.Mutex
	set  bool
	val  string
	what string
}

func (a *agree) observe(m *c14Mon, v string) {
	a.mu.Lock()
	if !a.set {
		a.set, a.val = true, v
		a.mu.Unlock()
		return
	}
	first := a.val
	a.mu.Unlock()
	if first != v {
		m.violate("value-differs-under-concurrency", fmt.Sprintf("%s: concurrent callers obtained %s and %s", a.what, first, v))
	}
}

// final compares what the concurrent callers saw with a single-threaded reference.
func (a *agree) final(m *c14Mon, ref string) {
	a.mu.Lock()
	defer a.mu.Unlock()
	if a.set && a.val != ref {
		m.violate("value-differs-under-concurrency", fmt.Sprintf("%s: concurrent callers obtained %s, single-threaded evaluation gives %s", a.what, a.val, ref))
	}
}

func f32(v float32) string { return fmt.Sprintf("%v(%08x)", v, math.Float32bits(v)) }

type wlShared struct {
	rec    *spg.WLRecipe
	words  []string
	kept   map[string]bool
	titled map[string]bool
	sepOK  func(string) bool
	ent    *agree
	name   string
	length int
}

func newWLShared(name string, words []string, L int, scheme string, preset string, sepChar string) *wlShared {
	wl, err := spg.NewWordList(words)
	if err != nil {
		panic(err)
	}
	rec := spg.NewWLRecipe(L, wl)
	rec.Capitalize = spg.CapScheme(scheme)
	s := &wlShared{rec: rec, words: words, kept: map[string]bool{}, titled: map[string]bool{}, name: name, length: L, ent: &agree{what: name + " entropy"}}
	for _, w := range oracle.Normalize(words) {
		s.kept[w] = true
		s.titled[oracle.Title(w)] = true
	}
	if preset != "" {
		rec.SeparatorFunc = presetByName[preset]
		valid := map[string]bool{}
		if preset == "SFNone" {
			valid[""] = true
		} else {
			pr, _ := presetRecipe(preset)
			all, _ := oracle.CharSemOf(pr).EnumerateValid(100000)
			for _, v := range all {
				valid[v] = true
			}
		}
		s.sepOK = func(v string) bool { return valid[v] }
	} else {
		rec.SeparatorChar = sepChar
		s.sepOK = func(v string) bool { return v == sepChar }
	}
	return s
}

// finish: single-threaded references, computed after the concurrent phase on
// the shared recipe and on a twin built from a fresh list.
func (s *wlShared) finish(m *c14Mon) {
	s.ent.final(m, f32(s.rec.Entropy()))
	if wl, err := spg.NewWordList(s.words); err == nil {
		twin := *s.rec
		t2 := spg.NewWLRecipe(twin.Length, wl)
		t2.Capitalize, t2.SeparatorChar, t2.SeparatorFunc = twin.Capitalize, twin.SeparatorChar, twin.SeparatorFunc
		s.ent.final(m, f32(t2.Entropy()))
	}
}

func (s *wlShared) check(m *c14Mon, p *spg.Password) {
	s.ent.observe(m, f32(p.Entropy))
	ts := p.Tokens()
	atoms := ts.Atoms()
	if len(atoms) != s.length {
		m.violate("invalid-password-under-concurrency", fmt.Sprintf("%s: %d atoms for Length %d", s.name, len(atoms), s.length))
		return
	}
	for _, a := range atoms {
		if !s.kept[a] && !s.titled[a] {
			m.violate("invalid-password-under-concurrency", fmt.Sprintf("%s: atom %q is not a list word", s.name, a))
			return
		}
	}
	if cl, msg := capsOK(string(s.rec.Capitalize), atoms, s.kept, s.titled); cl != "" {
		m.violate("invalid-password-under-concurrency", fmt.Sprintf("%s: %s", s.name, msg))
		return
	}
	for _, v := range ts.Separators() {
		if !s.sepOK(v) {
			m.violate("invalid-password-under-concurrency", fmt.Sprintf("%s: separator %q is not one the separator setting can produce", s.name, v))
			return
		}
	}
	prevAtom := false
	for i, t := range ts {
		isAtom := t.Type() == spg.AtomType
		if (i == 0 || i == len(ts)-1) && !isAtom {
			m.violate("invalid-password-under-concurrency", fmt.Sprintf("%s: leading/trailing separator in %q", s.name, p.String()))
			return
		}
		if i > 0 && !isAtom && !prevAtom {
			m.violate("invalid-password-under-concurrency", fmt.Sprintf("%s: two separators in a row in %q", s.name, p.String()))
			return
		}
		prevAtom = isAtom
	}
}

type c14Job func(g, i int)

// c14Build assembles the jobs of one scenario on freshly constructed shared
// values and returns them with the post-hoc reference checks.
func c14Build(scenario int, mon *c14Mon, round int) (jobs []c14Job, finish []func()) {
	charJob := func(name string, get func() spg.CharRecipe, ptr *spg.CharRecipe) c14Job {
		sem := oracle.CharSemOf(get())
		ent := &agree{what: name + " entropy"}
		alpha := &agree{what: name + " alphabet"}
		sp := &agree{what: name + " success probability"}
		finish = append(finish, func() {
			r := get()
			ent.final(mon, f32(r.Entropy()))
			alpha.final(mon, r.Alphabet())
			alpha.final(mon, sem.AlphabetString())
			sp.final(mon, f32(r.SuccessProbability()))
			want := oracle.Log2Big(sem.Count(sem.Length))
			if e := float64(r.Entropy()); math.Abs(e-want) > oracle.Ulp32(want)+1e-6 && !(math.IsInf(e, -1) && math.IsInf(want, -1)) {
				mon.violate("value-differs-under-concurrency", fmt.Sprintf("%s: entropy after the concurrent phase is %v, log2 of the exact count is %.6f", name, e, want))
			}
		})
		return func(g, i int) {
			switch (g + i) % 5 {
			case 0, 1:
				mon.guarded(0, name+".Generate", func() {
					var p *spg.Password
					var err error
					if ptr != nil {
						p, err = ptr.Generate()
					} else {
						p, err = func() (*spg.Password, error) { r := get(); return r.Generate() }()
					}
					if err != nil {
						return // an unlucky run of attempts is legitimate
					}
					if cl, msg := checkCharPassword(sem, p); cl != "" {
						mon.violate("invalid-password-under-concurrency", name+": "+msg)
					}
					ent.observe(mon, f32(p.Entropy))
				})
			case 2:
				mon.guarded(1, name+".Entropy", func() {
					if ptr != nil {
						ent.observe(mon, f32(ptr.Entropy()))
					} else {
						r := get()
						ent.observe(mon, f32(r.Entropy()))
					}
				})
			case 3:
				mon.guarded(2, name+".Alphabet", func() {
					if ptr != nil {
						alpha.observe(mon, ptr.Alphabet())
					} else {
						r := get()
						alpha.observe(mon, r.Alphabet())
					}
				})
			default:
				mon.guarded(3, name+".SuccessProbability", func() {
					if ptr != nil {
						sp.observe(mon, f32(ptr.SuccessProbability()))
					} else {
						r := get()
						sp.observe(mon, f32(r.SuccessProbability()))
					}
				})
			}
		}
	}
	wlJob := func(s *wlShared) c14Job {
		finish = append(finish, func() { s.finish(mon) })
		return func(g, i int) {
			switch (g + i) % 4 {
			case 0, 1:
				mon.guarded(0, s.name+".Generate", func() {
					p, err := s.rec.Generate()
					if err != nil {
						mon.violate("generation-failed-under-concurrency", fmt.Sprintf("%s: %v", s.name, err))
						return
					}
					s.check(mon, p)
				})
			case 2:
				mon.guarded(1, s.name+".Entropy", func() { s.ent.observe(mon, f32(s.rec.Entropy())) })
			default:
				mon.guarded(4, s.name+".Size", func() {
					if n := s.rec.Size(); int(n) != len(s.kept) {
						mon.violate("size-differs-under-concurrency", fmt.Sprintf("%s: Size()=%d, %d words kept", s.name, n, len(s.kept)))
					}
				})
			}
		}
	}
	sepJob := func(name string, sf spg.SFFunction, valid func(string) bool) c14Job {
		ent := &agree{what: name + " declared entropy"}
		finish = append(finish, func() {
			_, e := sf()
			ent.final(mon, f32(float32(e)))
		})
		return func(g, i int) {
			mon.guarded(5, name, func() {
				s, e := sf()
				if !valid(s) {
					mon.violate("invalid-separator-under-concurrency", fmt.Sprintf("%s returned %q", name, s))
				}
				ent.observe(mon, f32(float32(e)))
			})
		}
	}
	presetJobs := func() []c14Job {
		var out []c14Job
		for _, name := range presetNames {
			valid := map[string]bool{}
			if name == "SFNone" {
				valid[""] = true
			} else {
				pr, _ := presetRecipe(name)
				all, _ := oracle.CharSemOf(pr).EnumerateValid(100000)
				for _, v := range all {
					valid[v] = true
				}
			}
			out = append(out, sepJob(name, presetByName[name], func(s string) bool { return valid[s] }))
		}
		return out
	}
	words := []string{"apple", "pear", "plum", "fig", "kiwi", "Polish", "polish", "123", "éa", "7up", "2001"}
	if round > 0 { // fresh, distinct values every round: first uses keep happening
		words = append(words, fmt.Sprintf("round%dword", round), fmt.Sprintf("%dx", round))
	}

	switch scenario {
	case 0: // shared *CharRecipe with requirements and custom sets
		// RequireSets with spare capacity, and policies that are prefixes of one backing array (a policy table)
		sets := make([]string, 3, 6)
		sets[0], sets[1], sets[2] = "!@", "357", "xyz"
		r := &spg.CharRecipe{Length: 12 + round%5, Allow: spg.Letters, Require: spg.Digits, RequireSets: sets[:2], ExcludeChars: "lO", AllowChars: "+"}
		jobs = append(jobs, charJob("shared *CharRecipe", func() spg.CharRecipe { return *r }, r))
		r3 := &spg.CharRecipe{Length: 14 + round%3, Allow: spg.Lowers, RequireSets: sets[:3], AllowChars: "="}
		jobs = append(jobs, charJob("shared *CharRecipe (longer prefix of the same RequireSets array)", func() spg.CharRecipe { return *r3 }, r3))
		r2 := spg.NewCharRecipe(20 + round%7)
		jobs = append(jobs, charJob("shared *CharRecipe (defaults)", func() spg.CharRecipe { return *r2 }, r2))
		r5 := &spg.CharRecipe{Length: 14 + round%3, Allow: spg.All, Require: spg.All, RequireSets: []string{"xyz", "789"}}
		jobs = append(jobs, charJob("shared *CharRecipe with six required sets", func() spg.CharRecipe { return *r5 }, r5))
		// value copies of one recipe that came from the constructor, each with requirements of its own
		base := spg.NewCharRecipe(10 + round%3)
		base.Require = spg.Digits
		ca, cb := *base, *base
		cb.Require = spg.Symbols | spg.Uppers
		jobs = append(jobs, charJob("copy A of a NewCharRecipe recipe", func() spg.CharRecipe { return ca }, nil))
		jobs = append(jobs, charJob("copy B of a NewCharRecipe recipe", func() spg.CharRecipe { return cb }, nil))
	case 1: // a CharRecipe variable used by value from many goroutines (captured by reference)
		var r spg.CharRecipe = spg.CharRecipe{Length: 8 + round%6, Allow: spg.Digits | spg.Lowers, RequireSets: []string{"abc"}}
		jobs = append(jobs, charJob("CharRecipe variable", func() spg.CharRecipe { return r }, nil))
		// requirements that are declared and vacuous (empty custom sets are documented to be ignored): whatever
		// shortcut such a recipe takes, what it returns must be complete when it returns
		rv := &spg.CharRecipe{Length: 9 + round%3, Allow: spg.Lowers, RequireSets: []string{""}}
		jobs = append(jobs, charJob("shared *CharRecipe with an empty custom set", func() spg.CharRecipe { return *rv }, rv))
		var rw spg.CharRecipe = spg.CharRecipe{Length: 6 + round%4, AllowChars: "abc123", RequireSets: []string{"", ""}}
		jobs = append(jobs, charJob("CharRecipe variable with two empty custom sets", func() spg.CharRecipe { return rw }, nil))
	case 2: // *WLRecipe for each scheme, preset separators
		for i, sch := range schemes {
			jobs = append(jobs, wlJob(newWLShared("shared *WLRecipe/"+sch, words, 4, sch, presetNames[1+i%6], "")))
		}
	case 3: // one *WordList under several recipes
		wl, _ := spg.NewWordList(words)
		nkept := len(oracle.Normalize(words))
		for i, sch := range []string{"none", "random", "one"} {
			s := newWLShared("recipes sharing one *WordList/"+sch, words, 3+i, sch, "", []string{"-", "", "語"}[i])
			s.rec = spg.NewWLRecipe(3+i, wl)
			s.rec.Capitalize = spg.CapScheme(sch)
			s.rec.SeparatorChar = []string{"-", "", "語"}[i]
			jobs = append(jobs, wlJob(s))
		}
		jobs = append(jobs, func(g, i int) {
			mon.guarded(4, "WordList.Size", func() {
				if int(wl.Size()) != nkept {
					mon.violate("size-differs-under-concurrency", fmt.Sprintf("WordList.Size()=%d, want %d", wl.Size(), nkept))
				}
			})
		})
	case 4: // every package preset called directly
		jobs = presetJobs()
	case 5: // shared constructed separator function
		sr := spg.CharRecipe{Length: 2 + round%2, AllowChars: "+=-", RequireSets: []string{"+="}}
		if round%2 == 1 { // class requirements as well
			sr = spg.CharRecipe{Length: 3, Allow: spg.Lowers, Require: spg.Digits | spg.Symbols}
		}
		sf := spg.NewSFFunction(sr)
		srSem := oracle.CharSemOf(sr)
		validSep := func(s string) bool { return s == "" || srSem.Valid(oracle.Chars(s)) }
		jobs = append(jobs, sepJob("constructed NewSFFunction", sf, validSep))
		s := newWLShared("WLRecipe with shared constructed separator", words, 3, "random", "", "")
		s.rec.SeparatorFunc = sf
		s.sepOK = validSep
		jobs = append(jobs, wlJob(s))
	case 6: // shipped lists: shared input slice, shared list
		wlA, _ := spg.NewWordList(spg.AgileSyllables)
		sA := &wlShared{rec: spg.NewWLRecipe(4, wlA), words: spg.AgileSyllables, kept: map[string]bool{}, titled: map[string]bool{}, name: "AgileSyllables recipe", length: 4, ent: &agree{what: "AgileSyllables recipe entropy"}}
		for _, w := range spg.AgileSyllables {
			sA.kept[w] = true
			sA.titled[oracle.Title(w)] = true
		}
		sA.rec.Capitalize = spg.CSOne
		sA.rec.SeparatorFunc = spg.SFDigits1
		sA.sepOK = func(v string) bool { return len(v) == 1 && v[0] >= '0' && v[0] <= '9' }
		jobs = append(jobs, wlJob(sA))
		jobs = append(jobs, func(g, i int) {
			if i%40 != 0 {
				return
			}
			mon.guarded(6, "NewWordList(AgileSyllables)", func() {
				wl, err := spg.NewWordList(spg.AgileSyllables)
				if err != nil || int(wl.Size()) != len(spg.AgileSyllables) {
					mon.violate("wordlist-construction-under-concurrency", fmt.Sprintf("size %v err %v", wl, err))
				}
			})
		})
	default: // everything mixed
		r := &spg.CharRecipe{Length: 10 + round%4, Allow: spg.All, Exclude: spg.Ambiguous, Require: spg.Digits | spg.Symbols}
		jobs = append(jobs, charJob("shared *CharRecipe", func() spg.CharRecipe { return *r }, r))
		jobs = append(jobs, wlJob(newWLShared("shared *WLRecipe/random", words, 5, "random", "SFDigitsSymbols", "")))
		jobs = append(jobs, presetJobs()...)
	}
	return jobs, finish
}

// c14Disturb: what a long-running process has been through before the concurrent phase: generations that
// ran out of attempts, and generations aborted by a failing random source (panic recovered by the caller).
func c14Disturb(round int) {
	save := rand.Reader
	defer func() { rand.Reader = save }()
	func() {
		defer knobs(1+round%2, 1)()
		rec := spg.CharRecipe{Length: 3, Allow: spg.Lowers, Require: spg.Digits | spg.Symbols}
		wl, _ := spg.NewWordList([]string{"alpha", "beta", "gamma"})
		wr := spg.NewWLRecipe(3, wl)
		wr.SeparatorFunc = spg.NewSFFunction(rec)
		for i := 0; i < 12; i++ {
			runGen(rec, nil) // most of these exhaust their attempts
			runGen(wr, nil)
		}
	}()
	for k := 1; k <= 6; k++ {
		rec := spg.CharRecipe{Length: 6, Allow: spg.Letters, Require: spg.Digits}
		runGen(rec, &tape.Tape{Script: []uint32{3, 1, 4, 1, 5, 9, 2, 6}, AutoExtend: true, FaultAt: k, FaultBytes: k % 4})
		wl, _ := spg.NewWordList([]string{"alpha", "beta", "gamma"})
		wr := spg.NewWLRecipe(4, wl)
		wr.Capitalize = spg.CSRandom
		wr.SeparatorFunc = spg.SFDigits1
		runGen(wr, &tape.Tape{Script: []uint32{1, 0, 1, 1, 2, 5, 0, 7, 1, 3}, AutoExtend: true, FaultAt: 2 * k, FaultBytes: 0})
	}
	rand.Reader = &yieldReader{}
}

func c14Case(c *Ctx) {
	scenario := c.Case % c14Scenarios
	G := []int{4, 16, 64}[(c.Case/c14Scenarios)%3]
	mon := &c14Mon{}
	rand.Reader = &yieldReader{}
	defer tape.Restore()
	// Several rounds, each on freshly constructed shared values that are used for the first time by all
	// goroutines at once (lazily initialised or memoised state has its first use under concurrency).
	rounds := 6
	iters := 2400 / G / rounds
	if iters < 6 {
		iters = 6
	}
	if scenario == 6 {
		rounds, iters = 2, 1200/G
	}
	for round := 0; round < rounds; round++ {
		c14Disturb(round)
		jobs, finish := c14Build(scenario, mon, round+c.Case*rounds)
		var wg sync.WaitGroup
		start := make(chan struct{})
		for g := 0; g < G; g++ {
			wg.Add(1)
			go func(g int) {
				defer wg.Done()
				<-start
				for i := 0; i < iters; i++ {
					jobs[(g+i)%len(jobs)](g, i)
				}
			}(g)
		}
		close(start)
		wg.Wait()
		for _, f := range finish {
			func() {
				defer func() {
					if r := recover(); r != nil {
						mon.violate("panic-after-concurrent-phase", fmt.Sprint(r))
					}
				}()
				f()
			}()
		}
	}
	c.Exec(int(atomic.LoadInt64(&mon.calls)))
	c.Count("concurrent_calls", atomic.LoadInt64(&mon.calls))
	c.Count("rounds_on_fresh_shared_values", int64(rounds))
	c.Count(fmt.Sprintf("runs_with_%d_goroutines", G), 1)
	npairs := 0
	mon.pairs.Range(func(k, v interface{}) bool {
		npairs++
		c.Distinct("nontrivial", fmt.Sprintf("scenario%d|%s", scenario, k))
		return true
	})
	c.Max("max_overlapping_method_pairs_in_a_run", int64(npairs))
	for _, v := range mon.viol {
		c.Violate(v.Class, v.Msg, map[string]interface{}{"scenario": scenario, "goroutines": G})
	}
	if c.Case < c14Scenarios {
		c.Sample(map[string]interface{}{"scenario": scenario, "goroutines": G, "rounds": rounds, "calls": mon.calls, "overlapping_method_pairs": npairs})
	}
}

var reFrame = regexp.MustCompile(`(?m)^  (go\.1password\.io/spg\.\S+)$`)

func c14Post(a *Agg) {
	files, _ := filepath.Glob(filepath.Join(a.Dir, "race.*"))
	blocks, spgBlocks, harnessOnly := 0, 0, 0
	dedup := map[string]int{}
	var firstBlock string
	for _, f := range files {
		b, err := os.ReadFile(f)
		if err != nil {
			continue
		}
		for _, blk := range strings.Split(string(b), "==================") {
			if !strings.Contains(blk, "WARNING: DATA RACE") {
				continue
			}
			blocks++
			frames := reFrame.FindAllStringSubmatch(blk, -1)
			if len(frames) == 0 {
				harnessOnly++
				continue
			}
			spgBlocks++
			// outermost spg entry points of the two stacks: the last spg frame of each stack section
			secs := strings.Split(blk, "\n\n")
			outer := []string{}
			for _, s := range secs {
				fr := reFrame.FindAllStringSubmatch(s, -1)
				if len(fr) > 0 {
					outer = append(outer, fr[len(fr)-1][1])
				}
			}
			if len(outer) > 2 {
				outer = outer[:2]
			}
			sort.Strings(outer)
			key := strings.Join(outer, " <-> ")
			dedup[key]++
			if firstBlock == "" {
				firstBlock = blk
			}
		}
	}
	a.Counters["race_report_blocks"] = int64(blocks)
	a.Counters["race_reports_with_spg_frames"] = int64(spgBlocks)
	a.Extra["race_log_files"] = len(files)
	if spgBlocks > 0 {
		keys := []string{}
		for k := range dedup {
			keys = append(keys, k)
		}
		sort.Strings(keys)
		if len(firstBlock) > 3000 {
			firstBlock = firstBlock[:3000]
		}
		a.Violate(0, "data-race", fmt.Sprintf("the race detector reported %d data races involving spg code; distinct entry-point pairs: %s", spgBlocks, strings.Join(keys, "; ")),
			map[string]interface{}{"entry_point_pairs": dedup, "first_report": firstBlock})
	}
	if harnessOnly > 0 {
		a.Inconclusive = append(a.Inconclusive, fmt.Sprintf("%d race reports without any spg frame (harness bug)", harnessOnly))
	}
	if os.Getenv("GORACE") == "" || !raceEnabled {
		a.Inconclusive = append(a.Inconclusive, "harness not built with -race or GORACE log_path not set")
	}
}
