package main

import (
	"fmt"
	"strings"

	spg "go.1password.io/spg"

	"verifharness/gen"
	"verifharness/oracle"
	"verifharness/tape"
)

// C03 — every character password satisfies its recipe; exclusion always wins;
// Alphabet() is exactly the sorted, repeat-free set of characters that can appear.
//
// Online assertion on every password obtained from (1) every leaf of the small
// recipe trees, (2) class-flag triples x custom strings driven with scripts
// that force every alphabet index, plus real OS randomness, (3) recipes where
// Exclude overlaps Allow and Require in every way.

func c03Counts(tier string) (trees, flagBatches, overlapBatches int) {
	if tier == "thorough" {
		return 1500, 512, 128 // 512 batches x 64 triples = all 2^15 class-flag triples
	}
	return 200, 64, 24 // 64 x 32 = 2048 triples
}

func init() {
	register(&Prop{
		ID:    "C03",
		Level: "exploration",
		Rule:  "feeds: (1) every leaf of the decision trees of the small-recipe list shared with C02; (2) class-flag triples (quick: 2048 seed-chosen, thorough: all 32768) crossed with seed-generated custom allow/require/exclude strings, each driven with index scripts forcing alphabet index 0, a-1, every index when a<=70, and by real OS randomness; (3) exclusion-overlap recipes (class/class via Ambiguous, class/custom, custom/custom). evaluations = Generate + Alphabet calls observed; distinct_nontrivial = distinct recipes for which at least one password was returned and checked",
		Assumptions: []string{
			"reference semantics (harness/oracle CharSemOf) written from the field documentation: alphabet = (allowed + required) - excluded",
			"characters are Unicode code points; recipe strings with invalid UTF-8 are not generated",
		},
		MinEvals: 2000,
		NumCases: func(tier string, seed uint64) int {
			t, f, o := c03Counts(tier)
			return t + f + o
		},
		RunCase: c03Case,
	})
}

func c03CheckAlphabet(c *Ctx, rec spg.CharRecipe, sem oracle.CharSem) bool {
	got := rec.Alphabet()
	c.Exec(1)
	if got != sem.AlphabetString() {
		class := "alphabet-wrong"
		gc := oracle.Chars(got)
		for i := 1; i < len(gc); i++ {
			if gc[i] == gc[i-1] {
				class = "alphabet-repeats"
			} else if gc[i] < gc[i-1] {
				class = "alphabet-unsorted"
			}
		}
		for _, ch := range gc {
			if sem.Excluded[ch] {
				class = "alphabet-has-excluded"
			}
		}
		c.Violate(class, fmt.Sprintf("recipe %s: Alphabet()=%q, reference %q", descChar(rec), got, sem.AlphabetString()),
			map[string]interface{}{"recipe": descChar(rec), "got": got, "want": sem.AlphabetString()})
		return false
	}
	return true
}

func c03CheckPw(c *Ctx, rec spg.CharRecipe, sem oracle.CharSem, p *spg.Password, how interface{}) bool {
	c.Count("passwords_checked", 1)
	if class, msg := checkCharPassword(sem, p); class != "" {
		c.Violate(class, fmt.Sprintf("recipe %s: %s", descChar(rec), msg), map[string]interface{}{"recipe": descChar(rec), "tokens": tokRecs(p), "how": how})
		return false
	}
	return true
}

// forcedScript builds an index script (into the sorted reference alphabet)
// whose candidate has alphabet index j at position pos and, if possible, meets
// every live requirement with the other positions.
func forcedScript(r *gen.R, sem oracle.CharSem, pos int, j int) ([]uint32, bool) {
	L, a := sem.Length, len(sem.Alphabet)
	script := make([]uint32, L)
	idxOf := map[string]int{}
	for i, ch := range sem.Alphabet {
		idxOf[ch] = i
	}
	chars := make([]string, L)
	for i := range script {
		script[i] = uint32(r.Intn(a))
	}
	script[pos] = uint32(j)
	free := []int{}
	for _, i := range r.Perm(L) {
		if i != pos {
			free = append(free, i)
		}
	}
	for i := range script {
		chars[i] = sem.Alphabet[script[i]]
	}
	for _, set := range sem.ReqLive {
		if hits(chars, set) {
			continue
		}
		if len(free) == 0 {
			break
		}
		p := free[0]
		free = free[1:]
		ch := set[r.Intn(len(set))]
		script[p] = uint32(idxOf[ch])
		chars[p] = ch
	}
	return script, sem.MeetsReq(chars)
}

func hits(chars []string, set []string) bool {
	for _, ch := range chars {
		for _, s := range set {
			if s == ch {
				return true
			}
		}
	}
	return false
}

func c03Case(c *Ctx) {
	trees, flagB, _ := c03Counts(c.Tier)
	switch {
	case c.Case < trees:
		tc := charTreeCaseFor(c.Tier, c.Seed, c.Case)
		if tc.Lim.MaxLeaves > 5000 && !c.Thorough() {
			tc.Lim.MaxLeaves = 5000
		}
		sem := oracle.CharSemOf(tc.Rec)
		if tc.Trials > 0 {
			defer knobs(tc.Trials, tc.FailRate)()
		}
		fr := tc.frame()
		tc.preCalls()
		func() {
			defer func() { recover() }()
			tc.Rec.Entropy()
			tc.Rec.SuccessProbability()
			runGen(tc.Rec, nil)
		}()
		if msg := tc.frameChanged(fr); msg != "" {
			c.Violate("call-modified-recipe-fields", msg, map[string]interface{}{"recipe": descChar(tc.Rec)})
			return
		}
		// siblings sharing the backing array must still be what their own fields say
		for _, sib := range tc.Siblings {
			if !c03CheckAlphabet(c, sib, oracle.CharSemOf(sib)) {
				return
			}
		}
		if !c03CheckAlphabet(c, tc.Rec, sem) {
			return
		}
		okAll := true
		n := 0
		seen := map[string]bool{}
		res := exploreGen(tc.Rec, tc.Lim, func(g GenOut, t *tape.Tape) {
			if g.Pw != nil && okAll {
				n++
				okAll = c03CheckPw(c, tc.Rec, sem, g.Pw, map[string]interface{}{"draw_path": t.Path})
				for _, tk := range g.Pw.Tokens() {
					seen[tk.Value()] = true
				}
			}
		})
		c.Exec(res.Leaves + res.Cuts)
		c.Count("tree_leaves", int64(res.Leaves))
		if n > 0 {
			c.Distinct("nontrivial", descChar(tc.Rec).String())
		}
		if okAll && n > 0 && res.Complete && len(seen) != len(sem.Alphabet) && len(sem.ReqLive) == 0 {
			c.Violate("alphabet-character-never-appears", fmt.Sprintf("recipe %s: the complete tree shows %d distinct characters, Alphabet() has %d", descChar(tc.Rec), len(seen), len(sem.Alphabet)),
				map[string]interface{}{"recipe": descChar(tc.Rec)})
		}
		if c.Case < 3 {
			c.Sample(map[string]interface{}{"feed": "tree", "recipe": descChar(tc.Rec), "leaves": res.Leaves, "passwords_checked": n})
		}
	case c.Case < trees+flagB:
		c03Flags(c, c.Case-trees)
	default:
		c03Overlap(c)
	}
}

// c03Drive runs the forced-index scripts and OS-randomness generations for one recipe.
func c03Drive(c *Ctx, rec spg.CharRecipe, osRuns int) {
	sem := oracle.CharSemOf(rec)
	if !c03CheckAlphabet(c, rec, sem) {
		return
	}
	a, L := len(sem.Alphabet), rec.Length
	if a == 0 || L < 1 {
		c.Count("recipes_with_nothing_to_generate", 1)
		return
	}
	idx := []int{0, a - 1}
	if a <= 70 {
		idx = idx[:0]
		for j := 0; j < a; j++ {
			idx = append(idx, j)
		}
	} else {
		for k := 0; k < 4; k++ {
			idx = append(idx, c.R.Intn(a))
		}
	}
	union := map[string]bool{}
	got, forcedAll := 0, a <= 70
	for _, j := range idx {
		pos := c.R.Intn(L)
		if j == a-1 && c.R.Bool() {
			pos = L - 1
		}
		script, ok := forcedScript(c.R, sem, pos, j)
		if !ok {
			forcedAll = false
			continue
		}
		if j == a-1 {
			script[pos] = tape.Last
		}
		t := &tape.Tape{Script: script}
		g := runGen(rec, t)
		c.Exec(1)
		if g.Pw == nil {
			forcedAll = false
			c.Count("forced_scripts_without_password", 1)
			if g.Err != nil {
				c.Count("recipes_refused", 1)
				break // refused: C13 decides whether rightly
			}
			continue
		}
		got++
		if !c03CheckPw(c, rec, sem, g.Pw, map[string]interface{}{"script": script}) {
			return
		}
		for _, tk := range g.Pw.Tokens() {
			union[tk.Value()] = true
		}
	}
	if forcedAll && got == a && len(union) != a {
		c.Violate("alphabet-character-never-appears", fmt.Sprintf("recipe %s: forcing every alphabet index produced %d distinct characters, Alphabet() has %d", descChar(rec), len(union), a),
			map[string]interface{}{"recipe": descChar(rec)})
		return
	}
	// a first candidate that misses a requirement, then a valid one: whatever is returned must be valid
	if len(sem.ReqLive) > 0 && L >= 1 {
		idxOf := map[string]int{}
		for i, ch := range sem.Alphabet {
			idxOf[ch] = i
		}
		for try := 0; try < 6; try++ {
			// candidates made of one character (or two) repeated miss any requirement they are not in
			ch := sem.Alphabet[c.R.Intn(a)]
			bad := make([]uint32, L)
			chars := make([]string, L)
			for i := range bad {
				bad[i] = uint32(idxOf[ch])
				chars[i] = ch
			}
			if sem.MeetsReq(chars) {
				continue
			}
			good, ok := forcedScript(c.R, sem, c.R.Intn(L), c.R.Intn(a))
			if !ok {
				break
			}
			script := append(append(append([]uint32{}, bad...), bad...), good...)
			g := runGen(rec, &tape.Tape{Script: script})
			c.Exec(1)
			c.Count("retry_scripts", 1)
			if g.Pw != nil {
				got++
				if !c03CheckPw(c, rec, sem, g.Pw, map[string]interface{}{"script": "two candidates of one repeated character, then a valid candidate", "repeated": ch}) {
					return
				}
			}
			break
		}
	}
	for k := 0; k < osRuns; k++ {
		g := runGen(rec, nil)
		c.Exec(1)
		if g.Pw == nil {
			break
		}
		got++
		c.Count("os_randomness_generations", 1)
		if !c03CheckPw(c, rec, sem, g.Pw, "real OS randomness") {
			return
		}
	}
	if got > 0 {
		c.Distinct("nontrivial", descChar(rec).String())
	}
}

func c03Flags(c *Ctx, batch int) {
	per := 32
	if c.Thorough() {
		per = 64
	}
	for k := 0; k < per; k++ {
		var triple uint32
		if c.Thorough() {
			triple = uint32(batch*per + k) // all 2^15
		} else {
			triple = c.R.U32() & 0x7FFF
			if k%8 == 0 { // always some with few required classes and exclusion of Ambiguous
				triple = uint32(c.R.Intn(32)) | uint32(1<<uint(c.R.Intn(5)))<<5 | 16<<10
			}
		}
		rec := spg.CharRecipe{Allow: spg.CTFlag(triple & 31), Require: spg.CTFlag(triple >> 5 & 31), Exclude: spg.CTFlag(triple >> 10 & 31)}
		rec.Length = c.R.Range(1, 24)
		if c.R.Chance(1, 16) {
			rec.Length = c.R.Range(100, 700) // long passwords
		}
		if c.R.Chance(1, 12) { // lengths around machine-word and byte boundaries
			rec.Length = []int{31, 32, 33, 63, 64, 65, 127, 128, 129, 255, 256, 257, 4095, 4096, 4097, 5000}[c.R.Intn(16)]
		}
		// custom-string pattern
		switch c.R.Intn(6) {
		case 0:
		case 1:
			rec.AllowChars = dupSome(c.R, subsetOf(c.R, oracle.Chars("abcXYZ019!@éß語🙂"), 1, 6))
		case 2:
			rec.ExcludeChars = subsetOf(c.R, oracle.Chars("aeiouAEIOU0123456789!@.-_*"), 1, 8)
		case 3:
			rec.RequireSets = []string{subsetOf(c.R, oracle.Chars("0123456789abc!é"), 1, 4)}
		case 4:
			rec.AllowChars = subsetOf(c.R, oracle.Chars("abcXYZ019!@éß語🙂"), 1, 5)
			rec.ExcludeChars = subsetOf(c.R, oracle.Chars(rec.AllowChars+"xyz5S"), 1, 3)
		case 5:
			rec.RequireSets = []string{subsetOf(c.R, oracle.Chars("357"), 1, 3)}
			rec.ExcludeChars = subsetOf(c.R, oracle.Chars("357aA!"), 1, 3)
		}
		nr := nReqSets(rec)
		if nr >= 6 { // the implementation's entropy recursion takes seconds here; keep a few
			if !c.R.Chance(1, 16) {
				rec.RequireSets = nil
				nr = nReqSets(rec)
			}
		}
		if nr > 0 && rec.Length < nr {
			rec.Length = nr + c.R.Intn(6)
		}
		os := 3
		if nr >= 5 {
			os = 0
		}
		c.Count("flag_triples", 1)
		c.Distinct("triples", fmt.Sprint(triple))
		c03Drive(c, rec, os)
		if k == 0 && batch < 2 {
			c.Sample(map[string]interface{}{"feed": "class-flag triple", "recipe": descChar(rec), "alphabet": rec.Alphabet()})
		}
	}
}

func c03Overlap(c *Ctx) {
	for k := 0; k < 16; k++ {
		rec := spg.CharRecipe{Length: c.R.Range(2, 16)}
		switch c.R.Intn(5) {
		case 0: // class/class through Ambiguous
			rec.Allow = spg.All
			rec.Require = spg.CTFlag(c.R.Intn(16))
			rec.Exclude = spg.Ambiguous
		case 1: // a whole required class excluded
			rec.Allow = spg.Letters | spg.Digits
			rec.Require = spg.Digits
			rec.Exclude = spg.Digits
		case 2: // class required, custom exclusion removes most of it
			rec.Allow = spg.Lowers
			rec.Require = spg.Digits
			rec.ExcludeChars = subsetOf(c.R, oracle.Chars("0123456789"), 5, 9)
		case 3: // custom/custom
			pool := oracle.Chars("abcdefgh")
			rec.AllowChars = subsetOf(c.R, pool, 2, 6)
			rec.RequireSets = []string{subsetOf(c.R, pool, 1, 3), subsetOf(c.R, pool, 1, 3)}
			rec.ExcludeChars = subsetOf(c.R, pool, 1, 4)
		default: // custom required, class excludes part of it
			rec.Allow = spg.Uppers
			rec.RequireSets = []string{"0O1Il5S" + subsetOf(c.R, oracle.Chars("234abc"), 0, 3)}
			rec.Exclude = spg.Ambiguous
		}
		if k%4 == 3 { // requirements that are met almost surely: success probability indistinguishable from 1 in float32
			switch c.R.Intn(3) {
			case 0:
				rec = spg.CharRecipe{Length: []int{70, 100, 300}[c.R.Intn(3)], Allow: spg.Letters, Require: spg.Digits}
			case 1:
				rec = spg.CharRecipe{Length: []int{21, 30, 64}[c.R.Intn(3)], AllowChars: "a", RequireSets: []string{"b"}}
			default:
				all := "abcdefghijklmnopqrstuvwxyzABCDEFGHIJKLMNOPQRSTUVWXYZ0123456789"
				rec = spg.CharRecipe{Length: 6, AllowChars: "#", RequireSets: []string{all}}
			}
		}
		if strings.TrimSpace(rec.AllowChars) == "" && rec.Allow == 0 && len(rec.RequireSets) == 0 && rec.Require == 0 {
			rec.AllowChars = "ab"
		}
		c.Count("overlap_recipes", 1)
		c03Drive(c, rec, 3)
		if k == 0 && c.Case%8 == 0 {
			c.Sample(map[string]interface{}{"feed": "exclusion overlap", "recipe": descChar(rec), "alphabet": rec.Alphabet()})
		}
	}
}
