package main

import (
	"crypto/rand"
	"encoding/binary"
	"fmt"
	"math/bits"
	"os"
	"path/filepath"
	"runtime/debug"
	"sort"
	"syscall"
	"time"
	"unsafe"

	spg "go.1password.io/spg"

	"verifharness/explore"
	"verifharness/gen"
	"verifharness/tape"
)

// C01 — bounded draws are exactly uniform for every bound.
//
// M1 (judge): for every bound of a panel, ALL 2^32 raw words are fed as the
// first word of the real bounded draw; per-alternative counters must be equal,
// accepted > 2^31, accepted + rejected = 2^32, every result < n.
// M2 (scout): boundary probing over thousands of bounds; agnostic refutations
// are reported directly, deviations from the reference threshold model are
// escalated to an exhaustive count of that bound.

const c01Shards = 16
const c01SmallMax = 1 << 24 // bounds up to here: uint32 counters, sharded by word range

func c01Panel(tier string, seed uint64) []uint32 {
	r := gen.New(seed, "c01panel")
	set := map[uint32]bool{}
	add := func(v uint64) {
		if v >= 1 && v <= 0xFFFFFFFF {
			set[uint32(v)] = true
		}
	}
	if tier == "thorough" {
		for n := uint64(1); n <= 17; n++ {
			add(n)
		}
		for k := uint(0); k <= 31; k++ {
			add(1 << k)
		}
		for _, k := range []uint{4, 8, 15, 16, 24, 30, 31} {
			add(1<<k - 1)
			add(1<<k + 1)
		}
		for _, v := range []uint64{3 << 30, 1<<31 + 1, 1<<32 - 1, 18325, 10129, 61, 68, 10, 100, 7, 49, 6, 16, 26, 52, 62, 20, 255, 256, 257, 1000, 65535, 65537, 0xAAAAAAAB, 0x55555555, 6700417} {
			add(v)
		}
		for b := uint(5); b <= 31; b++ { // one seed-chosen bound per binade
			add(uint64(1)<<b + r.U64()%(uint64(1)<<b))
		}
	} else {
		for _, v := range []uint64{2, 3, 61, 18325} {
			add(v)
		}
		add(uint64(1)<<8 + r.U64()%(1<<16-1<<8))
		add(uint64(1)<<16 + r.U64()%(1<<24-1<<16))
	}
	out := make([]uint32, 0, len(set))
	for v := range set {
		out = append(out, v)
	}
	sort.Slice(out, func(i, j int) bool { return out[i] < out[j] })
	return out
}

type c01Plan struct {
	small  []uint32 // each: c01Shards cases
	large  []uint32 // each: 1 case
	scouts int
	gens   int // generator-level cases: complete trees of small recipes (every pick of one of n alternatives)
}

// c01GenPanel: recipes whose complete decision trees are checked against the uniform product law, so that
// a generator that redraws, skips or reweights a pick (rather than the bounded draw itself) is seen too.
var c01GenWL = []WLCase{
	{Words: []string{"alpha", "bravo", "charlie", "2nd", "Paris"}, Length: 2, Scheme: "first", SepKind: "char", SepChar: " "},
	{Words: []string{"alpha", "bravo", "2nd"}, Length: 3, Scheme: "one", SepKind: "char", SepChar: "-"},
	{Words: []string{"alpha", "Paris", "語"}, Length: 2, Scheme: "random", SepKind: "char", SepChar: ""},
	{Words: []string{"alpha", "bravo", "charlie"}, Length: 2, Scheme: "all", SepKind: "preset", Preset: "SFDigits1"},
	{Words: []string{"a", "b", "c", "d", "e", "f", "g"}, Length: 2, Scheme: "none", SepKind: "preset", Preset: "SFSymbols"},
	{Words: []string{"x", "7up", "y"}, Length: 3, Scheme: "all", SepKind: "char", SepChar: "."},
}
var c01GenChar = []spg.CharRecipe{
	{Length: 3, AllowChars: "abcde"},
	{Length: 2, Allow: spg.Digits},
	{Length: 3, AllowChars: "abc", RequireSets: []string{"a"}},
	{Length: 2, AllowChars: "é語🙂xyz"},
	{Length: 3, AllowChars: "x", RequireSets: []string{"ab", "bc"}},
	{Length: 2, Allow: spg.Digits, Require: spg.Digits | spg.Ambiguous, ExcludeChars: "2346789"},
}

func c01PlanFor(tier string, seed uint64) c01Plan {
	var p c01Plan
	for _, n := range c01Panel(tier, seed) {
		if n <= c01SmallMax {
			p.small = append(p.small, n)
		} else {
			p.large = append(p.large, n)
		}
	}
	p.scouts = 16
	if tier == "thorough" {
		p.scouts = 256
	}
	p.gens = len(c01GenWL) + len(c01GenChar) + 1
	return p
}

func init() {
	register(&Prop{
		ID:    "C01",
		Level: "exploration",
		Rule:  "M1: for each bound n of the panel (quick: 2, 3, 61, 18325 + 2 seed-chosen; thorough: ~110 bounds incl. 1..17, every 2^k, 2^k+-1, 3*2^30, 2^31+1, 2^32-1, list and preset sizes, one seed-chosen bound per binade) all 2^32 raw words are fed to the real bounded draw and counted per alternative; M2: boundary probes (~100 words each) over thousands of further bounds. evaluations = bounded draws executed; distinct_nontrivial = distinct bounds n>=2 examined (swept or probed)",
		Assumptions: []string{
			"the raw 32-bit word is uniform (OS CSPRNG); the monitor replaces crypto/rand.Reader, which Go 1.23 allows",
			"exhaustive in the raw word for panel bounds only; other bounds are probed at boundary words",
		},
		MinEvals: 1 << 32,
		NumCases: func(tier string, seed uint64) int {
			p := c01PlanFor(tier, seed)
			return len(p.large) + len(p.small)*c01Shards + p.scouts + p.gens
		},
		Cost: func(tier string, seed uint64, i int) int {
			p := c01PlanFor(tier, seed)
			if i < len(p.large) {
				return 4 // up to 4 GiB of counters each: at most 4 at a time
			}
			return 1
		},
		RunCase:     c01Case,
		Post:        c01Post,
		CaseTimeout: 3600,
	})
}

// Counter arrays live outside the Go heap (anonymous mmap): the bounded draw allocates 4 bytes per call, and
// with gigabytes of live heap the collector would let garbage grow to a multiple of that before collecting.
func mmapBytes(n int) ([]byte, func()) {
	if n == 0 {
		return nil, func() {}
	}
	b, err := syscall.Mmap(-1, 0, n, syscall.PROT_READ|syscall.PROT_WRITE, syscall.MAP_ANON|syscall.MAP_PRIVATE)
	if err != nil {
		return make([]byte, n), func() {}
	}
	return b, func() { syscall.Munmap(b) }
}

func allocCounters8(n uint32) ([]uint8, func()) { return mmapBytes(int(n)) }

func allocCounters32(n uint32) ([]uint32, func()) {
	b, free := mmapBytes(4 * int(n))
	if len(b) == 0 {
		return nil, free
	}
	return unsafe.Slice((*uint32)(unsafe.Pointer(&b[0])), int(n)), free
}

// sweepReader hands out the word under test as the first word of a draw, then
// zeros (which any threshold rule accepts... or not: the call is then recorded
// as rejected), then an error.
type sweepReader struct {
	cur   uint32
	state int
	acc   uint32 // a word the draw was observed to accept at once: what follows a rejected first word
}

func (s *sweepReader) Read(b []byte) (int, error) {
	switch {
	case s.state == 0 && len(b) == 4:
		binary.BigEndian.PutUint32(b, s.cur)
	case s.state >= 1 && s.state <= 2 && len(b) >= 4 && len(b)%4 == 0 && len(b) <= 256:
		// the redraw after a rejected first word: accepted words, as many at a time as the draw asks for
		for i := 0; i+4 <= len(b); i += 4 {
			binary.BigEndian.PutUint32(b[i:], s.acc)
		}
		s.state++
		return len(b), nil
	case len(b) != 4:
		return 0, tape.ErrExtraRead
	default:
		return 0, tape.ErrExhausted
	}
	s.state++
	return 4, nil
}

// sweep runs the real bounded draw on every first word in [lo,hi] and calls
// count for every accepted result. It returns the number of rejected first
// words and, if the draw misbehaved, a description.
func sweep(n uint32, lo, hi uint64, count func(res uint32)) (accepted, rejected uint64, bad string, badWord uint32) {
	sr := &sweepReader{}
	if a, ok := tape.AcceptedWordFor(n); ok {
		sr.acc = a
	}
	defer debug.SetGCPercent(debug.SetGCPercent(3000)) // the draw allocates 4 bytes per call; collect less often
	save := rand.Reader
	rand.Reader = sr
	spg.VerifOnDraw = nil
	defer func() {
		rand.Reader = save
		if r := recover(); r != nil {
			bad = fmt.Sprintf("bounded draw panicked: %v", r)
			badWord = sr.cur
		}
	}()
	for w := lo; w <= hi; w++ {
		sr.cur = uint32(w)
		sr.state = 0
		res := spg.VerifRandomUint32n(n)
		if sr.state > 1 {
			rejected++
			continue
		}
		if sr.state == 0 {
			return accepted, rejected, "bounded draw returned without reading the random source", uint32(w)
		}
		if res >= n {
			return accepted, rejected, fmt.Sprintf("result %d is not below the bound %d", res, n), uint32(w)
		}
		accepted++
		count(res)
	}
	return accepted, rejected, "", 0
}

func c01Case(c *Ctx) {
	p := c01PlanFor(c.Tier, c.Seed)
	i := c.Case
	switch {
	case i < len(p.large):
		c01Large(c, p.large[i])
	case i < len(p.large)+len(p.small)*c01Shards:
		k := i - len(p.large)
		c01Shard(c, p.small[k/c01Shards], k%c01Shards)
	case i < len(p.large)+len(p.small)*c01Shards+p.scouts:
		c01Scout(c, i-len(p.large)-len(p.small)*c01Shards, p.scouts)
	default:
		k := i - len(p.large) - len(p.small)*c01Shards - p.scouts
		c.Count("generator_level_trees", 1)
		if k == len(c01GenWL)+len(c01GenChar) {
			coinStats(c, "generator-pick:", 40, 40000) // coin flips and word picks of a long password, counted
			return
		}
		if k < len(c01GenWL) {
			c04Tree(c, c01GenWL[k], explore.Limits{MaxLeaves: 30000, MaxDraws: 64}, "generator-pick:", false)
		} else {
			c02Tree(c, charTreeCase{Rec: c01GenChar[k-len(c01GenWL)], Trials: 2, FailRate: 1, Lim: explore.Limits{MaxLeaves: 30000, MaxDraws: 64}}, "generator-pick:")
		}
	}
}

func c01Shard(c *Ctx, n uint32, shard int) {
	if c.Verbose { // replay: judge the whole bound in-process
		c01Whole(c, n)
		return
	}
	span := uint64(1) << 32 / c01Shards
	lo := uint64(shard) * span
	hi := lo + span - 1
	counts, free := allocCounters32(n)
	defer free()
	acc, rej, bad, badWord := sweep(n, lo, hi, func(res uint32) { counts[res]++ })
	c.Exec(int(acc + rej))
	c.Count("sweep_words", int64(acc+rej))
	if bad != "" {
		c.Violate("draw-misbehaves", fmt.Sprintf("n=%d raw word %#08x: %s", n, badWord, bad), map[string]interface{}{"n": n, "word": badWord})
		return
	}
	c.Distinct("nontrivial", fmt.Sprint("n=", n))
	buf := make([]byte, 4*len(counts))
	for j, v := range counts {
		binary.LittleEndian.PutUint32(buf[4*j:], v)
	}
	name := filepath.Join(c.Dir, fmt.Sprintf("c01-%d-%d.bin", n, shard))
	if err := os.WriteFile(name, buf, 0o644); err != nil {
		c.Inconclusive("cannot write counters: " + err.Error())
		return
	}
	c.Blob("n", fmt.Sprint(n))
	c.Blob("shard", fmt.Sprint(shard))
	c.Blob("accepted", fmt.Sprint(acc))
	c.Blob("rejected", fmt.Sprint(rej))
}

// judgeCounts applies the M1 oracle.
func judgeCounts(n uint32, min, max uint64, minAt, maxAt uint32, acc, rej uint64) (class, msg string) {
	switch {
	case acc+rej != 1<<32:
		return "sweep-incomplete", fmt.Sprintf("n=%d: accepted %d + rejected %d != 2^32", n, acc, rej)
	case min != max:
		return "biased-draw", fmt.Sprintf("n=%d: alternative %d is selected by %d of the 2^32 raw words but alternative %d by %d", n, maxAt, max, minAt, min)
	case acc <= 1<<31:
		return "too-many-rejected", fmt.Sprintf("n=%d: only %d of 2^32 raw words are accepted (must be more than half)", n, acc)
	}
	return "", ""
}

// c01Whole sweeps all 2^32 words for a small bound in one process (replay, escalation).
func c01Whole(c *Ctx, n uint32) {
	counts, free := allocCounters32(n)
	defer free()
	acc, rej, bad, badWord := sweep(n, 0, 1<<32-1, func(res uint32) { counts[res]++ })
	c.Exec(int(acc + rej))
	c.Count("sweep_words", int64(acc+rej))
	if bad != "" {
		c.Violate("draw-misbehaves", fmt.Sprintf("n=%d raw word %#08x: %s", n, badWord, bad), map[string]interface{}{"n": n, "word": badWord})
		return
	}
	min, max := uint64(1<<62), uint64(0)
	var minAt, maxAt uint32
	for j, v := range counts {
		if uint64(v) < min {
			min, minAt = uint64(v), uint32(j)
		}
		if uint64(v) > max {
			max, maxAt = uint64(v), uint32(j)
		}
	}
	if cl, msg := judgeCounts(n, min, max, minAt, maxAt, acc, rej); cl != "" {
		c.Violate(cl, msg, map[string]interface{}{"n": n, "min": min, "max": max, "accepted": acc, "rejected": rej})
		return
	}
	c.Note(fmt.Sprintf("n=%d: each alternative selected by %d raw words, %d rejected", n, min, rej))
}

func c01Large(c *Ctx, n uint32) {
	counts, free := allocCounters8(n)
	defer free()
	sat := false
	acc, rej, bad, badWord := sweep(n, 0, 1<<32-1, func(res uint32) {
		if counts[res] == 255 {
			sat = true
		} else {
			counts[res]++
		}
	})
	c.Exec(int(acc + rej))
	c.Count("sweep_words", int64(acc+rej))
	c.Count("bounds_swept", 1)
	if bad != "" {
		c.Violate("draw-misbehaves", fmt.Sprintf("n=%d raw word %#08x: %s", n, badWord, bad), map[string]interface{}{"n": n, "word": badWord})
		return
	}
	c.Distinct("nontrivial", fmt.Sprint("n=", n))
	if sat {
		c.Violate("biased-draw", fmt.Sprintf("n=%d: some alternative is selected by more than 255 raw words, impossible for equal counts", n), map[string]interface{}{"n": n})
		return
	}
	min, max := uint64(1<<62), uint64(0)
	var minAt, maxAt uint32
	for j, v := range counts {
		if uint64(v) < min {
			min, minAt = uint64(v), uint32(j)
		}
		if uint64(v) > max {
			max, maxAt = uint64(v), uint32(j)
		}
	}
	if cl, msg := judgeCounts(n, min, max, minAt, maxAt, acc, rej); cl != "" {
		c.Violate(cl, msg, map[string]interface{}{"n": n, "min": min, "max": max, "accepted": acc, "rejected": rej})
		return
	}
	c.Sample(map[string]interface{}{"n": n, "each_alternative_selected_by": min, "accepted": acc, "rejected": rej})
}

func c01Post(a *Agg) {
	p := c01PlanFor(a.Tier, a.Seed)
	swept := len(p.large)
	for bi, n := range p.small {
		sum := make([]uint64, n)
		var acc, rej uint64
		shards := 0
		for s := 0; s < c01Shards; s++ {
			name := filepath.Join(a.Dir, fmt.Sprintf("c01-%d-%d.bin", n, s))
			b, err := os.ReadFile(name)
			if err != nil || len(b) != 4*int(n) {
				continue
			}
			os.Remove(name)
			shards++
			for j := range sum {
				sum[j] += uint64(binary.LittleEndian.Uint32(b[4*j:]))
			}
		}
		for i, bl := range a.Blobs {
			_ = i
			if bl["n"] == fmt.Sprint(n) {
				var x, y uint64
				fmt.Sscan(bl["accepted"], &x)
				fmt.Sscan(bl["rejected"], &y)
				acc += x
				rej += y
			}
		}
		if shards != c01Shards {
			// a shard reported a violation or failed; nothing to sum
			continue
		}
		swept++
		min, max := uint64(1<<62), uint64(0)
		var minAt, maxAt uint32
		for j, v := range sum {
			if v < min {
				min, minAt = v, uint32(j)
			}
			if v > max {
				max, maxAt = v, uint32(j)
			}
		}
		if cl, msg := judgeCounts(n, min, max, minAt, maxAt, acc, rej); cl != "" {
			a.Violate(len(p.large)+bi*c01Shards, cl, msg, map[string]interface{}{"n": n, "min": min, "max": max, "accepted": acc, "rejected": rej})
			continue
		}
		if len(a.Samples) < 8 {
			a.Samples = append(a.Samples, map[string]interface{}{"n": n, "each_alternative_selected_by": min, "accepted": acc, "rejected": rej})
		}
	}
	a.Counters["bounds_swept_exhaustively"] = int64(swept)
	a.Extra["panel"] = c01Panel(a.Tier, a.Seed)
}

// ---------------------------------------------------------------------------
// M2 scout

func c01ScoutBounds(tier string, seed uint64, k, of int) []uint32 {
	r := gen.New(seed, "c01scout", k)
	out := []uint32{}
	// all n <= 4096 are spread over the scout cases
	for n := 1 + k; n <= 4096; n += of {
		out = append(out, uint32(n))
	}
	if k == 0 {
		for b := uint(0); b <= 31; b++ {
			out = append(out, 1<<b)
			if b >= 2 {
				out = append(out, 1<<b-1, 1<<b+1)
			}
		}
		out = append(out, 0xFFFFFFFF, 0xFFFFFFFE, 0x80000001, 0xC0000000)
	}
	extra := 60
	if tier == "thorough" {
		extra = 500
	}
	for j := 0; j < extra; j++ {
		b := uint(r.Range(12, 31))
		out = append(out, uint32(uint64(1)<<b+r.U64()%(uint64(1)<<b)))
	}
	return out
}

func c01Scout(c *Ctx, k, of int) {
	escalated := false
	stalls := 0
	for _, n := range c01ScoutBounds(c.Tier, c.Seed, k, of) {
		c.Distinct("scouted", fmt.Sprint(n))
		if n >= 2 {
			c.Distinct("nontrivial", fmt.Sprint("n=", n))
		}
		T := (uint64(1) << 32 / uint64(n)) * uint64(n) // reference threshold: largest multiple of n <= 2^32
		words := []uint64{0, 1, uint64(n) - 1, uint64(n), uint64(n) + 1, 2*uint64(n) - 1, 2 * uint64(n), 1<<31 - 1, 1 << 31, 1<<31 + 1,
			1<<32 - uint64(n), T - 1, T, T + 1, 1<<32 - 1, 1<<32 - 2}
		for b := uint(0); b < 32; b++ {
			words = append(words, 1<<b)
		}
		for j := 0; j < 40; j++ {
			words = append(words, uint64(c.R.U32()))
		}
		var rejectedWord int64 = -1
		suspicious := ""
		fill, okFill := tape.AcceptedWordFor(n) // what follows a rejected word in these probes: a word accepted at once
		if !okFill {
			c.Violate("draw-misbehaves", fmt.Sprintf("n=%d: none of ten spread-out raw words is accepted at once (more than half of all words must be)", n), map[string]interface{}{"n": n})
			return
		}
		for _, w64 := range words {
			if w64 > 0xFFFFFFFF {
				continue
			}
			w := uint32(w64)
			res, reads, pan := tape.Observe(n, w, fill, fill, fill, fill, fill, fill, fill, fill)
			res2, reads2, pan2 := tape.Observe(n, w, fill, fill, fill, fill, fill, fill, fill, fill)
			c.Exec(2)
			if pan || pan2 {
				c.Violate("draw-misbehaves", fmt.Sprintf("n=%d word %#08x: bounded draw panicked", n, w), map[string]interface{}{"n": n, "word": w})
				return
			}
			if res != res2 || reads != reads2 {
				c.Violate("draw-not-deterministic", fmt.Sprintf("n=%d word %#08x: two calls on the same raw words gave %d (%d reads) and %d (%d reads)", n, w, res, reads, res2, reads2), map[string]interface{}{"n": n, "word": w})
				return
			}
			if res >= n {
				c.Violate("draw-misbehaves", fmt.Sprintf("n=%d word %#08x: result %d is not below the bound", n, w, res), map[string]interface{}{"n": n, "word": w})
				return
			}
			if reads == 0 {
				c.Violate("draw-misbehaves", fmt.Sprintf("n=%d: result without reading the source", n), map[string]interface{}{"n": n})
				return
			}
			if n == 1 && (res != 0 || reads != 1) {
				c.Violate("draw-misbehaves", fmt.Sprintf("n=1 word %#08x: result %d after %d reads, want 0 after one read", w, res, reads), map[string]interface{}{"n": n, "word": w})
				return
			}
			if reads > 1 && rejectedWord < 0 {
				rejectedWord = int64(w)
			}
			// reference threshold-and-remainder model: only a suspicion
			isPow2 := n&(n-1) == 0
			wantAccept := isPow2 || w64 < T
			if wantAccept != (reads == 1) || (reads == 1 && !isPow2 && uint64(res) != w64%uint64(n)) || (reads == 1 && isPow2 && res != w&(n-1)) {
				if suspicious == "" {
					suspicious = fmt.Sprintf("word %#08x: result %d after %d reads, reference model says accept=%v result=%d", w, res, reads, wantAccept, w64%uint64(n))
				}
			}
		}
		c.Count("bounds_probed", 1)
		// continuation after a rejected word: [rejected, w] must behave like [w]
		if rejectedWord >= 0 {
			for j := 0; j < 8; j++ {
				w := c.R.U32()
				if j == 0 {
					w = 0
				}
				r1, reads1, p1 := tape.Observe(n, w, fill, fill, fill, fill, fill, fill, fill, fill)
				if p1 || reads1 != 1 {
					continue
				}
				r2, reads2, p2 := tape.Observe(n, uint32(rejectedWord), w, fill, fill, fill, fill, fill, fill, fill)
				c.Exec(2)
				c.Count("continuations_checked", 1)
				_ = reads2 // how many reads a redraw takes is the implementation's business (it may fetch several words at a time)
				if p2 || r2 != r1 {
					c.Violate("redraw-not-fresh", fmt.Sprintf("n=%d: after rejected word %#08x the next word %#08x gave %d after %d reads (panic=%v); alone it gives %d after one read", n, uint32(rejectedWord), w, r2, reads2, p2, r1),
						map[string]interface{}{"n": n, "rejected": rejectedWord, "word": w})
					return
				}
				// several rejected words in a row: every one of them must be redrawn
				for _, k := range []int{2, 3, 4, 17, 40} {
					words := []uint32{}
					for x := 0; x < k; x++ {
						words = append(words, uint32(rejectedWord))
					}
					words = append(words, w, fill, fill, fill, fill, fill, fill, fill)
					rk, readsk, pk := tape.Observe(n, words...)
					c.Exec(1)
					c.Count("multi_rejection_continuations_checked", 1)
					if pk || rk != r1 {
						c.Violate("redraw-not-fresh", fmt.Sprintf("n=%d: after %d rejected words (%#08x each) the next word %#08x gave %d after %d reads (panic=%v); alone it gives %d after one read", n, k, uint32(rejectedWord), w, rk, readsk, pk, r1),
							map[string]interface{}{"n": n, "rejected": rejectedWord, "rejected_in_a_row": k, "word": w})
						return
					}
				}
			}
		}
		// a source that blocks for a while (early boot, a starved container) is still the same source: the
		// rejected word must be redrawn however long the reads took
		if rejectedWord >= 0 && k%8 == 0 && stalls < 2 {
			stalls++
			at := 1 + stalls%2
			r1, reads1, p1 := tape.Observe(n, uint32(rejectedWord), fill, fill, fill, fill, fill, fill, fill, fill)
			r2, reads2, p2 := tape.ObserveStalled(n, at, 300*time.Millisecond, uint32(rejectedWord), fill, fill, fill, fill, fill, fill, fill, fill)
			c.Exec(2)
			c.Count("stalled_source_draws_checked", 1)
			if p1 != p2 || r1 != r2 || reads1 != reads2 {
				c.Violate("draw-depends-on-how-long-the-source-took", fmt.Sprintf("n=%d: rejected word %#08x then %#08x gives %d after %d reads; with the source blocking 300 ms at read %d it gives %d after %d reads (panic=%v)", n, uint32(rejectedWord), fill, r1, reads1, at, r2, reads2, p2),
					map[string]interface{}{"n": n, "rejected": rejectedWord, "stalled_read": at})
				return
			}
		}
		// the raw word is 4 bytes however the source chunks them: delivered in pieces of 1-3 bytes the draw
		// must consume the same bytes and give the same result
		for _, w64 := range []uint64{0, uint64(n) - 1, T - 1, T, 1<<32 - 1, uint64(c.R.U32()), uint64(c.R.U32()) | 0x01010101} {
			if w64 > 0xFFFFFFFF {
				continue
			}
			w := uint32(w64)
			r0, reads0, p0 := tape.Observe(n, w, 0x01020304, 0x01020304)
			if p0 {
				continue
			}
			for chunk := 1; chunk <= 3; chunk++ {
				r1, bytes1, p1 := tape.ObserveChunked(n, chunk, w, 0x01020304, 0x01020304)
				c.Exec(1)
				c.Count("chunked_draws_checked", 1)
				if p1 || r1 != r0 || bytes1 != 4*reads0 {
					c.Violate("depends-on-chunking", fmt.Sprintf("n=%d word %#08x: delivered whole the draw gives %d after %d bytes; delivered %d byte(s) per read it gives %d after %d bytes (panic=%v)", n, w, r0, 4*reads0, chunk, r1, bytes1, p1),
						map[string]interface{}{"n": n, "word": w, "chunk": chunk})
					return
				}
			}
		}
		// another draw (different bound) completing while this one waits in the source must not matter
		if n >= 3 && n&(n-1) != 0 {
			for _, innerN := range []uint32{62, 1000, 3, 0xF0000001, n + 1} {
				if innerN == n || innerN&(innerN-1) == 0 {
					continue
				}
				innerT := (uint64(1) << 32 / uint64(innerN)) * uint64(innerN)
				for _, w64 := range []uint64{T, T + 1, 1<<32 - 1, innerT, innerT - 1, innerT + 1, T - 1, uint64(c.R.U32())} {
					if w64 > 0xFFFFFFFF {
						continue
					}
					w := uint32(w64)
					r0, reads0, p0 := tape.Observe(n, w, fill, fill, fill)
					r1, reads1, p1 := tape.ObserveInterposed(n, innerN, uint32(c.R.U32()), w, fill, fill, fill)
					c.Exec(2)
					c.Count("interposed_draws_checked", 1)
					if p0 != p1 || r0 != r1 || reads0 != reads1 {
						c.Violate("draw-disturbed-by-another-draw", fmt.Sprintf("n=%d word %#08x: alone the draw gives %d after %d reads; with a complete draw of bound %d made while it waits for the source it gives %d after %d reads", n, w, r0, reads0, innerN, r1, reads1),
							map[string]interface{}{"n": n, "word": w, "inner_bound": innerN})
						return
					}
				}
			}
		}
		if suspicious != "" {
			c.Count("suspicions", 1)
			if !escalated && n <= c01SmallMax {
				escalated = true
				c.Note(fmt.Sprintf("n=%d deviates from the reference model (%s): escalated to an exhaustive count", n, suspicious))
				counts, free := allocCounters32(n)
				defer free()
				acc, rej, bad, badWord := sweep(n, 0, 1<<32-1, func(res uint32) { counts[res]++ })
				c.Exec(int(acc + rej))
				c.Count("sweep_words", int64(acc+rej))
				c.Count("escalations", 1)
				if bad != "" {
					c.Violate("draw-misbehaves", fmt.Sprintf("n=%d raw word %#08x: %s", n, badWord, bad), map[string]interface{}{"n": n, "word": badWord})
					return
				}
				min, max := uint64(1<<62), uint64(0)
				var minAt, maxAt uint32
				for j, v := range counts {
					if uint64(v) < min {
						min, minAt = uint64(v), uint32(j)
					}
					if uint64(v) > max {
						max, maxAt = uint64(v), uint32(j)
					}
				}
				if cl, msg := judgeCounts(n, min, max, minAt, maxAt, acc, rej); cl != "" {
					c.Violate(cl, msg+" (found by the scout: "+suspicious+")", map[string]interface{}{"n": n, "min": min, "max": max, "accepted": acc, "rejected": rej})
					return
				}
				c.Note(fmt.Sprintf("n=%d cleared by exhaustive count (each alternative %d words)", n, min))
			}
		}
	}
	_ = bits.Len32
}
