package main

import (
	"encoding/base64"
	"encoding/hex"
	"fmt"
	"math"
	"os"
	"path/filepath"
	"strconv"
	"strings"
	"syscall"

	spg "go.1password.io/spg"

	"verifharness/gen"
	"verifharness/oracle"
	"verifharness/tape"
)

// C18 — generated secrets leave the library only through the returned Password.
//
// Monitor: file descriptors 1 and 2 of the worker (the log package writes to
// fd 2) are redirected to a capture file around every batch of library calls;
// the captured bytes are searched for every secret of the batch (returned
// passwords, atoms, separators, rejected candidates, discarded separators) as
// raw text, Go-quoted, hex and base64.

func c18Counts(tier string) (batches, per int) {
	if tier == "thorough" {
		return 12000, 50
	}
	return 400, 25
}

func init() {
	register(&Prop{
		ID:    "C18",
		Level: "exploration",
		Rule:  "batches of generations over the character / wordlist / refusal recipe generators, including refused, all-attempts-failing and fault-aborted generations and the paths that do print (duplicate-word notice, empty-alphabet warning, rounding log line); every third batch runs under a hostile process environment (locale names, debugging switches, and every variable the library was observed to read: cmd/envprobe under -test.testlogfile). Canary batches use alphabets and words made of private-use / rare-script characters and random 12-16 letter words, so any occurrence of any secret fragment (down to one character) in the captured fd 1/2 bytes is a leak; realistic batches (default recipe, shipped lists, digits) are searched for whole passwords and rejected candidates of >= 8 characters. evaluations = library calls made under capture; distinct_nontrivial = distinct secrets searched for",
		Assumptions: []string{
			"everything the library can write goes through fd 1, fd 2 or the standard logger (fd 2); the worker itself writes nothing there during a batch",
			"rejected candidates are reconstructed from the draw path of the scripted tape and the sorted alphabet (verif canon hook)",
		},
		MinEvals: 1000,
		NumCases: func(tier string, seed uint64) int { b, _ := c18Counts(tier); return b },
		RunCase:  c18Case,
	})
}

type capture struct {
	f            *os.File
	path         string
	save1, save2 int
}

func startCapture(dir string, id int) (*capture, error) {
	path := filepath.Join(dir, fmt.Sprintf("c18-capture-%d-%d.bin", os.Getpid(), id))
	f, err := os.Create(path)
	if err != nil {
		return nil, err
	}
	c := &capture{f: f, path: path}
	if c.save1, err = syscall.Dup(1); err != nil {
		return nil, err
	}
	if c.save2, err = syscall.Dup(2); err != nil {
		return nil, err
	}
	if err := syscall.Dup2(int(f.Fd()), 1); err != nil {
		return nil, err
	}
	if err := syscall.Dup2(int(f.Fd()), 2); err != nil {
		return nil, err
	}
	return c, nil
}

func (c *capture) stop() []byte {
	syscall.Dup2(c.save1, 1)
	syscall.Dup2(c.save2, 2)
	syscall.Close(c.save1)
	syscall.Close(c.save2)
	c.f.Close()
	b, _ := os.ReadFile(c.path)
	os.Remove(c.path)
	return b
}

var canaryChars = oracle.Chars("𐌰𐌱𐌲𐍈ꙮ꙰ᚠᚢᚦ߷")

func canaryWord(r *gen.R) string {
	n := r.Range(12, 16)
	b := make([]byte, n)
	for i := range b {
		b[i] = byte('a' + r.Intn(26))
	}
	return "q" + string(b) + "zx"
}

type secret struct {
	v     string
	whole bool // a whole password / candidate / word (also searched in hex and base64)
}

func encodings(s secret) []string {
	out := []string{s.v}
	q := strconv.Quote(s.v)
	out = append(out, q[1:len(q)-1])
	qa := strconv.QuoteToASCII(s.v)
	out = append(out, qa[1:len(qa)-1], strings.ToUpper(qa[1:len(qa)-1]))
	if s.whole && len(s.v) >= 6 {
		h := hex.EncodeToString([]byte(s.v))
		out = append(out, h, strings.ToUpper(h), base64.StdEncoding.EncodeToString([]byte(s.v)), base64.RawURLEncoding.EncodeToString([]byte(s.v)))
	}
	return out
}

func c18Case(c *Ctx) {
	_, per := c18Counts(c.Tier)
	canary := c.Case%2 == 0
	var secrets []secret
	calls := 0
	add := func(v string, whole bool) {
		if v != "" {
			secrets = append(secrets, secret{v, whole})
		}
	}
	addWindows := func(word string) { // every 8-character window of a canary word is a secret fragment
		cs := oracle.Chars(word)
		for i := 0; i+8 <= len(cs); i++ {
			add(strings.Join(cs[i:i+8], ""), false)
		}
	}
	tokenAPI := func(p *spg.Password) { // what a caller does next with a password
		if p == nil {
			return
		}
		defer func() { recover() }()
		ts := p.Tokens()
		ts.Kind()
		ts.Atoms()
		ts.Separators()
		if idx, err := ts.MakeIndices(); err == nil {
			spg.Tokenize(p.String(), idx, p.Entropy)
		}
		calls += 3
	}
	addPw := func(p *spg.Password, fragments bool) {
		if p == nil {
			return
		}
		tokenAPI(p)
		add(p.String(), true)
		if fragments {
			for _, t := range p.Tokens() {
				add(t.Value(), oracle.CharCount(t.Value()) > 1)
			}
		}
	}
	minLen := 8
	if canary {
		for _, ch := range canaryChars { // no diagnostic can contain a canary character, drawn or not
			add(ch, false)
		}
	}
	if c.Case%4 >= 2 { // the retry knobs lowered: attempts run out for real, separator recipes fail for real
		defer knobs(1+c.Case%3, 1)()
		c.Count("batches_with_lowered_knobs", 1)
	}
	if c.Case%3 == 1 { // a hostile process environment: locale names, debugging switches, and every variable the library was seen to read
		envs := envNames()
		defer envRestore(envs)()
		for i, n := range envs {
			os.Setenv(n, envValues[(c.Case+i)%len(envValues)])
		}
		c.Count("batches_under_a_hostile_environment", 1)
		if d, note := envConsulted(); note == "ok" {
			c.Count("environment_probe_ok", 1)
			c.Max("environment_variables_the_library_was_seen_to_read", int64(len(d)))
		} else {
			c.Count("environment_probe_unavailable", 1)
		}
	}
	cp, err := startCapture(c.Dir, c.Case)
	if err != nil {
		c.Inconclusive("cannot redirect fd 1/2: " + err.Error())
		return
	}
	descs := []string{}
	func() {
		defer func() {
			if r := recover(); r != nil {
				tape.Restore()
				descs = append(descs, fmt.Sprintf("harness panic: %v", r))
			}
		}()
		for k := 0; k < per; k++ {
			kind := c.R.Intn(6)
			switch {
			case kind <= 2: // character recipes: returned, retried, refused, failing, fault-aborted
				var rec spg.CharRecipe
				if canary {
					pool := c.R.ShuffleStrings(canaryChars)
					rec = spg.CharRecipe{Length: c.R.Range(1, 8), AllowChars: strings.Join(pool[:c.R.Range(2, 8)], "")}
					if c.R.Bool() {
						rec.RequireSets = []string{strings.Join(pool[8:8+c.R.Range(1, 3)], "")}
					}
					if c.R.Chance(1, 6) {
						rec.ExcludeChars = rec.AllowChars // empty alphabet: the warning path
						rec.RequireSets = nil
					}
					if c.R.Chance(1, 6) { // requirement that cannot be met comfortably: refused
						rec.Length = 1
						rec.RequireSets = []string{pool[9], pool[10]}
					}
				} else {
					switch c.R.Intn(4) {
					case 0:
						rec = *spg.NewCharRecipe(c.R.Range(8, 24))
					case 1:
						rec = spg.CharRecipe{Length: c.R.Range(8, 12), Allow: spg.Digits}
					case 2:
						rec = spg.CharRecipe{Length: c.R.Range(8, 16), Allow: spg.Letters, Require: spg.Digits, RequireSets: []string{"357"}}
					default:
						rec = spg.CharRecipe{Length: 9, Allow: spg.Digits, Require: spg.Digits} // p = 1: the rounding log line may fire
					}
				}
				sem := oracle.CharSemOf(rec)
				mode := c.R.Intn(4)
				script := make([]uint32, 3*rec.Length+6)
				for i := range script {
					script[i] = c.R.U32()
				}
				t := &tape.Tape{Script: script, AutoExtend: true, MaxDraws: 4000}
				if mode == 1 && len(sem.ReqLive) > 0 { // every attempt fails: index 0 forever unless it satisfies
					t = &tape.Tape{Script: nil, AutoExtend: true, MaxDraws: 4000}
				}
				if mode == 2 {
					t.FaultAt, t.FaultBytes = c.R.Range(1, rec.Length+1), c.R.Intn(4)
				}
				var g GenOut
				if mode == 3 {
					g = runGen(rec, nil)
				} else {
					if mode == 0 && c.R.Chance(1, 2) { // the identical stream several times in a row (a stuck source)
						for rep := 0; rep < 2; rep++ {
							t2 := &tape.Tape{Script: script, AutoExtend: true, MaxDraws: 4000}
							addPw(runGen(rec, t2).Pw, canary)
							calls++
						}
					}
					g = runGen(rec, t)
					// every candidate the tape made the generator draw is a secret-in-waiting
					if len(sem.Alphabet) > 0 && rec.Length > 0 {
						cand := ""
						n := 0
						for _, st := range t.Path {
							if int(st.N) != len(sem.Alphabet) {
								continue
							}
							cand += sem.Alphabet[st.I]
							n++
							if n%rec.Length == 0 {
								if canary || oracle.CharCount(cand) >= minLen {
									add(cand, true)
								}
								cand = ""
								if len(secrets) > 4000 {
									break
								}
							}
						}
						if cand != "" && (canary || oracle.CharCount(cand) >= minLen) {
							add(cand, true)
						}
						if canary {
							for _, st := range t.Path {
								if int(st.N) == len(sem.Alphabet) {
									add(sem.Alphabet[st.I], false)
								}
							}
						}
					}
				}
				calls++
				rec.Entropy()
				rec.SuccessProbability()
				rec.Alphabet()
				calls += 3
				addPw(g.Pw, canary)
				if len(descs) < 2 {
					descs = append(descs, "char:"+descChar(rec).String()+" outcome="+g.Kind())
				}
			default: // wordlist recipes
				var w WLCase
				if canary {
					n := c.R.Range(2, 6)
					for i := 0; i < n; i++ {
						cw := canaryWord(c.R)
						switch c.R.Intn(5) {
						case 0: // title-casing does not change these: digit first, already capitalised, caseless script
							cw = "7" + cw
						case 1:
							cw = strings.ToUpper(cw[:1]) + cw[1:]
						case 2:
							cw = strings.Join(c.R.ShuffleStrings(canaryChars)[:6], "") + cw[:4]
						}
						w.Words = append(w.Words, cw)
					}
					if c.R.Bool() {
						w.Words = append(w.Words, w.Words[0]) // duplicate: the notice path
					}
					if c.R.Chance(1, 4) {
						w.Words = append(w.Words, "") // the empty word (known finding F7): passwords come out short
					}
					if c.R.Chance(1, 4) { // a word too long for the token index
						long := ""
						for len(long) < 260 {
							long += canaryWord(c.R)
						}
						w.Words = append(w.Words, long)
					}
					w.Length = c.R.Range(1, 5)
					w.Scheme = schemes[c.R.Intn(5)]
					w.SepKind = "constructed"
					sepChars := c.R.ShuffleStrings(canaryChars)[:3]
					w.sepRec = spg.CharRecipe{Length: c.R.Range(1, 3), AllowChars: strings.Join(sepChars, "")}
					if c.R.Bool() {
						w.sepRec.RequireSets = []string{sepChars[0]} // separator candidates get rejected too
					}
					d := descChar(w.sepRec)
					w.SepRec = &d
					if c.R.Chance(1, 3) { // both separator fields set: the function wins, the character is idle configuration
						w.SepChar = c.R.ShuffleStrings(canaryChars)[0]
					}
					if c.R.Chance(1, 8) { // hundreds of tokens: an index of more than 255 bytes
						w.Length = c.R.Range(128, 300)
					}
				} else {
					w = WLCase{Length: c.R.Range(3, 6), Scheme: schemes[c.R.Intn(5)], SepKind: "preset", Preset: presetNames[c.R.Intn(len(presetNames))]}
					w.Words = spg.AgileSyllables
					if c.R.Bool() {
						w.Words = []string{"correct", "horse", "battery", "staple", "correct"}
					}
				}
				b, err := w.Build()
				calls++
				if err != nil {
					continue
				}
				if canary && c.R.Chance(1, 5) { // a caller-written separator function with an odd idea of its own entropy
					sepv := strings.Join(c.R.ShuffleStrings(canaryChars)[:2], "")
					ent := []float64{math.Inf(1), math.Inf(-1), math.NaN(), -3, 1e30}[c.R.Intn(5)]
					b.Rec.SeparatorFunc = func() (string, spg.FloatE) { return sepv, spg.FloatE(ent) }
					add(sepv, true)
					if c.R.Bool() { // ... or one that panics on a later call, the caller recovering
						n := 0
						b.Rec.SeparatorFunc = func() (string, spg.FloatE) {
							n++
							if n == 2 {
								panic("separator function failed")
							}
							return sepv, 0
						}
					}
				}
				script := make([]uint32, 4*w.Length+6)
				for i := range script {
					script[i] = c.R.U32()
				}
				var t *tape.Tape
				switch c.R.Intn(3) {
				case 0:
					t = &tape.Tape{Script: script, AutoExtend: true}
				case 1:
					t = &tape.Tape{Script: script, AutoExtend: true, FaultAt: c.R.Range(1, 2*w.Length), FaultBytes: c.R.Intn(4)}
				}
				if t != nil && t.FaultAt == 0 && c.R.Chance(1, 2) { // identical stream twice in a row
					t2 := &tape.Tape{Script: script, AutoExtend: true}
					addPw(runGen(b.fresh(w).Rec, t2).Pw, canary)
					t3 := &tape.Tape{Script: script, AutoExtend: true}
					addPw(runGen(b.fresh(w).Rec, t3).Pw, canary)
					calls += 2
				}
				g := runGen(b.Rec, t)
				calls++
				b.Rec.Entropy()
				calls++
				addPw(g.Pw, canary)
				if canary {
					for _, s := range b.Log.Returns { // includes discarded separators
						add(s, false)
						for _, ch := range oracle.Chars(s) {
							add(ch, false)
						}
					}
					for _, word := range w.Words {
						add(word, true)
						add(oracle.Title(word), true)
						addWindows(word)
					}
				}
				if len(descs) < 2 {
					descs = append(descs, "wl:"+w.String()+" outcome="+g.Kind())
				}
			}
		}
	}()
	captured := cp.stop()
	c.Exec(calls)
	c.Count("captured_bytes", int64(len(captured)))
	c.Count("captured_lines", int64(strings.Count(string(captured), "\n")))
	if canary {
		c.Count("canary_batches", 1)
	} else {
		c.Count("realistic_batches", 1)
	}
	text := string(captured)
	seen := map[string]bool{}
	for _, s := range secrets {
		if seen[s.v] {
			continue
		}
		seen[s.v] = true
		if !canary && oracle.CharCount(s.v) < minLen {
			continue
		}
		c.Distinct("nontrivial", s.v)
		c.Count("secrets_searched", 1)
		for _, enc := range encodings(s) {
			if enc == "" {
				continue
			}
			if i := strings.Index(text, enc); i >= 0 {
				lo, hi := i-60, i+len(enc)+60
				if lo < 0 {
					lo = 0
				}
				if hi > len(text) {
					hi = len(text)
				}
				kind := "fragment"
				if s.whole {
					kind = "whole-secret"
				}
				c.Violate("secret-in-output:"+kind, fmt.Sprintf("a generated secret (%q, %s) appears in what the library wrote to stdout/stderr/log: ...%q...", s.v, kind, text[lo:hi]),
					map[string]interface{}{"secret": s.v, "encoding_found": enc, "context": text[lo:hi], "batch": descs})
				return
			}
		}
	}
	if c.Case < 4 {
		c.Sample(map[string]interface{}{"canary_batch": canary, "calls": calls, "secrets_searched": len(seen), "captured_bytes": len(captured), "captured_head": head(text, 160), "examples": descs})
	}
}
