package main

import (
	"bytes"
	"fmt"
	"math"
	"os"
	"os/exec"
	"path/filepath"
	"strings"

	spg "go.1password.io/spg"

	"verifharness/gen"
	"verifharness/oracle"
)

// C17 — the opgen CLI is faithful to the library recipe its flags describe.

func c17Counts(tier string) (batches, per int) {
	if tier == "thorough" {
		return 3000, 30
	}
	return 150, 20
}

func init() {
	register(&Prop{
		ID:    "C17",
		Level: "exploration",
		Rule:  "seed-generated invocations of the binary built from /repo/cmd/opgen using only the words of its usage text: characters x length {1..40,64,128} x subsets of the five class words for allow/require/exclude (incl. defaults by omission) x --entropy; words x {words, syllables, generated --file lists with duplicates, title-case twins, non-ASCII, one word} x size 1..8 x 7 separators x 5 schemes x --entropy; the invalid forms (no/unknown subcommand, unknown flag, unknown list) and refused recipes. Exit status, stdout and stderr are compared with an independent flag-word -> recipe mapping: stdout must be exactly one line that belongs to the recipe's language (characters: reference semantics; words: exact dynamic-programming membership in word(sep word)^(n-1) with the scheme's title-case positions) or the library's entropy to two decimals. evaluations = processes run; distinct_nontrivial = distinct valid command lines that produced a password or entropy line",
		Assumptions: []string{
			"flag-word tables written from the usage text in harness (independent of cmd/opgen's maps)",
			"the library recipe equivalent to the flags is evaluated in-harness for the --entropy comparison and the refusal judgement (exact success probability vs threshold; 1% band not judged)",
			"command lines with undocumented words, --entropy on a refused recipe, and unreadable files are outside the statement",
		},
		MinEvals: 200,
		NumCases: func(tier string, seed uint64) int { b, _ := c17Counts(tier); return b + 1 },
		RunCase:  c17Case,
	})
}

// independent flag-word tables (from the usage text)
var c17Class = map[string]spg.CTFlag{"uppercase": 1, "lowercase": 2, "digits": 4, "symbols": 8, "ambiguous": 16}
var c17ClassWords = []string{"uppercase", "lowercase", "digits", "symbols", "ambiguous"}
var c17Sep = map[string]string{"hyphen": "-", "space": " ", "comma": ",", "period": ".", "underscore": "_", "none": ""}
var c17SepWords = []string{"hyphen", "space", "comma", "period", "underscore", "digit", "none"}

type cliRun struct {
	stdout, stderr string
	exit           int
}

// opgenStdin, when not nil, is what the next opgen processes find on standard input
var opgenStdin []byte

func runOpgen(args []string) (cliRun, error) {
	opgen := os.Getenv("VCHECK_OPGEN")
	if opgen == "" {
		return cliRun{}, fmt.Errorf("VCHECK_OPGEN not set")
	}
	cmd := exec.Command(opgen, args...)
	var so, se bytes.Buffer
	cmd.Stdout, cmd.Stderr = &so, &se
	if opgenStdin != nil { // a word-list "file" that is a pipe: --file=/dev/stdin
		cmd.Stdin = bytes.NewReader(opgenStdin)
	}
	err := cmd.Run()
	r := cliRun{stdout: so.String(), stderr: se.String()}
	if ee, ok := err.(*exec.ExitError); ok {
		r.exit = ee.ExitCode()
	} else if err != nil {
		return r, err
	}
	return r, nil
}

func classList(r *gen.R, allowEmpty bool) (string, spg.CTFlag) {
	n := r.Range(1, 3)
	if r.Chance(1, 6) {
		n = 5
	}
	words := []string{}
	var f spg.CTFlag
	for _, i := range r.Perm(5)[:n] {
		words = append(words, c17ClassWords[i])
		f |= c17Class[c17ClassWords[i]]
	}
	sep := ","
	if r.Chance(1, 5) {
		sep = ", " // the usage text lists classes with ", "; spaces are stripped
	}
	return strings.Join(words, sep), f
}

func stdoutLines(s string) []string {
	if s == "" {
		return nil
	}
	return strings.Split(strings.TrimSuffix(s, "\n"), "\n")
}

func c17Case(c *Ctx) {
	if c.Case == 0 {
		c17Invalid(c)
		return
	}
	_, per := c17Counts(c.Tier)
	for k := 0; k < per; k++ {
		if c.R.Bool() {
			c17Characters(c, k == 0 && c.Case < 3)
		} else {
			c17Words(c, k == 1 && c.Case < 3)
		}
	}
}

func c17Invalid(c *Ctx) {
	wf := filepath.Join(c.Dir, "c17-invalid-words.txt")
	os.WriteFile(wf, []byte("alpha\nbeta\n"), 0o644)
	forms := [][]string{
		{}, {"recipe"}, {"passwords"}, {"chars"}, {"Characters"}, {"--length=5"}, {"-x"},
		{"characters", "--bogus"}, {"characters", "--size=3"}, {"characters", "--length"}, {"characters", "--length=abc"},
		{"words", "--bogus=1"}, {"words", "--length=4"}, {"words", "--list=dictionary"}, {"words", "--list=Words"}, {"words", "--list="},
		{"words", "--size=x"}, {"words", "--list=nope", "--size=3"}, {"characters", "--entropy=maybe"},
	}
	defChar := oracle.CharSemOf(*spg.NewCharRecipe(20))
	for _, args := range forms {
		r, err := runOpgen(args)
		c.Exec(1)
		if err != nil {
			c.Inconclusive("cannot run opgen: " + err.Error())
			return
		}
		c.Distinct("invalid_forms", strings.Join(args, " "))
		det := map[string]interface{}{"argv": args, "exit": r.exit, "stdout_head": head(r.stdout, 200), "stderr_head": head(r.stderr, 200)}
		if r.exit != 2 {
			c.Violate("usage-error-exit-status", fmt.Sprintf("opgen %q exits %d, documented status for a missing/unknown subcommand, unknown flag or unknown list is 2", args, r.exit), det)
			continue
		}
		for _, line := range stdoutLines(r.stdout) {
			if defChar.Valid(oracle.Chars(line)) {
				c.Violate("password-on-usage-error", fmt.Sprintf("opgen %q printed %q, which is a default-recipe password", args, line), det)
			}
		}
		c.Count("invalid_forms_confirmed", 1)
	}
	c.Sample(map[string]interface{}{"invalid_forms_checked": len(forms), "example": forms[7]})
}

func c17Characters(c *Ctx, sample bool) {
	r := c.R
	length := []int{r.Range(1, 40), r.Range(1, 40), r.Range(1, 12), 64, 128, 20}[r.Intn(6)]
	args := []string{"characters"}
	rec := spg.CharRecipe{Length: 20, Allow: 15, Exclude: 16} // documented defaults: all, exclude ambiguous, require none
	if r.Chance(5, 6) {
		rec.Length = length
		if r.Chance(1, 5) {
			args = append(args, "-length", fmt.Sprint(length))
		} else {
			args = append(args, fmt.Sprintf("--length=%d", length))
		}
	}
	if r.Chance(1, 15) {
		rec.Length = []int{0, -1}[r.Intn(2)]
		args = []string{"characters", fmt.Sprintf("--length=%d", rec.Length)}
	}
	if r.Chance(1, 2) {
		s, f := classList(r, false)
		args = append(args, "--allow="+s)
		rec.Allow = f
	}
	if r.Chance(1, 2) {
		s, f := classList(r, false)
		args = append(args, "--require="+s)
		rec.Require = f
	}
	if r.Chance(1, 2) {
		s, f := classList(r, false)
		args = append(args, "--exclude="+s)
		rec.Exclude = f
	}
	if r.Chance(1, 8) { // fewer characters than required classes, yet honourable: classes overlap through 'ambiguous',
		// or a required class is excluded as well and so stops being required
		type combo struct {
			allow, require, exclude string
		}
		cb := []combo{
			{"digits", "digits,ambiguous", "symbols"},
			{"digits", "uppercase,digits,ambiguous", "symbols"},
			{"uppercase,digits", "uppercase,ambiguous", "symbols"},
			{"lowercase", "lowercase,ambiguous", "digits"},
			{"", "uppercase,digits", "uppercase,digits"},
			{"lowercase", "symbols,digits", "symbols,digits"},
		}[r.Intn(6)]
		L := r.Range(1, 2)
		args = []string{"characters", fmt.Sprintf("--length=%d", L), "--require=" + cb.require, "--exclude=" + cb.exclude}
		rec = spg.CharRecipe{Length: L, Allow: 15}
		if cb.allow != "" {
			args = append(args, "--allow="+cb.allow)
			rec.Allow = 0
			for _, w := range strings.Split(cb.allow, ",") {
				rec.Allow |= c17Class[w]
			}
		}
		for _, w := range strings.Split(cb.require, ",") {
			rec.Require |= c17Class[w]
		}
		for _, w := range strings.Split(cb.exclude, ",") {
			rec.Exclude |= c17Class[w]
		}
		c.Count("short_length_overlapping_class_cases", 1)
	}
	entropy := r.Chance(1, 4)
	if entropy {
		args = append(args, "--entropy")
	}
	args = shuffleFlags(r, args)
	sem := oracle.CharSemOf(rec)
	p := successP(sem)
	mustRefuse := rec.Length < 1 || len(sem.Alphabet) == 0 || p.Sign() == 0
	judged := true
	if !mustRefuse {
		pf, _ := p.Float64()
		pstar := refusalThreshold(200, 1e-9)
		switch {
		case pf < 0.99*pstar:
			mustRefuse = true
		case pf <= 1.01*pstar || (sem.Emptied > 0 && len(sem.ReqLive) > 0):
			judged = false
		}
	}
	if !judged || (entropy && mustRefuse) {
		c.Count("not_judged", 1)
		return
	}
	run, err := runOpgen(args)
	c.Exec(1)
	if err != nil {
		c.Inconclusive("cannot run opgen: " + err.Error())
		return
	}
	det := map[string]interface{}{"argv": args, "exit": run.exit, "stdout": head(run.stdout, 300), "stderr_head": head(run.stderr, 200), "equivalent_recipe": descChar(rec)}
	lines := stdoutLines(run.stdout)
	if mustRefuse {
		if run.exit != 1 {
			c.Violate("refused-recipe-exit-status", fmt.Sprintf("opgen %q: the library refuses this recipe, documented exit status 1, got %d", args, run.exit), det)
			return
		}
		// no stdout line may be a candidate of the recipe with the requirement filter dropped
		loose := sem
		loose.ReqLive = nil
		for _, l := range lines {
			if loose.Length >= 1 && loose.Valid(oracle.Chars(l)) {
				c.Violate("password-printed-for-refused-recipe", fmt.Sprintf("opgen %q exits 1 but printed candidate %q", args, l), det)
				return
			}
		}
		c.Count("refusals_confirmed", 1)
		return
	}
	if run.exit != 0 {
		c.Violate("honourable-recipe-fails", fmt.Sprintf("opgen %q exits %d (stderr %q); the equivalent library recipe %s can be honoured", args, run.exit, head(run.stderr, 120), descChar(rec)), det)
		return
	}
	if len(lines) != 1 {
		c.Violate("stdout-not-one-line", fmt.Sprintf("opgen %q printed %d lines on standard output", args, len(lines)), det)
		return
	}
	c.Distinct("nontrivial", strings.Join(args, " "))
	if entropy {
		want := fmt.Sprintf("%.2f", rec.Entropy())
		// independently of the library: log2 of the exact number of satisfying passwords
		ref := oracle.Log2Big(sem.Count(sem.Length))
		var printed float64
		_, perr := fmt.Sscanf(lines[0], "%f", &printed)
		if lines[0] != want || perr != nil || math.Abs(printed-ref) > 0.0051+oracle.Ulp32(ref) {
			c.Violate("entropy-line-wrong", fmt.Sprintf("opgen %q printed %q; the equivalent library recipe %s reports %s, log2 of the exact count is %.4f", args, lines[0], descChar(rec), want, ref), det)
		}
		c.Count("entropy_lines_confirmed", 1)
		return
	}
	if !sem.Valid(oracle.Chars(lines[0])) {
		c.Violate("password-not-in-recipe-language", fmt.Sprintf("opgen %q printed %q, which the equivalent recipe %s cannot generate (alphabet %q)", args, lines[0], descChar(rec), sem.AlphabetString()), det)
		return
	}
	c.Count("passwords_confirmed", 1)
	if sample {
		c.Sample(det)
	}
}

// respell rewrites "--name=value" arguments into the other forms the flag syntax allows:
// -name=value, --name value, -name value.
func respell(r *gen.R, args []string) []string {
	out := []string{args[0]}
	for _, a := range args[1:] {
		if strings.HasPrefix(a, "--") && strings.Contains(a, "=") && !strings.HasPrefix(a, "--file=") {
			kv := strings.SplitN(a[2:], "=", 2)
			switch r.Intn(6) {
			case 0:
				out = append(out, "-"+kv[0]+"="+kv[1])
				continue
			case 1:
				out = append(out, "--"+kv[0], kv[1])
				continue
			case 2:
				out = append(out, "-"+kv[0], kv[1])
				continue
			}
		}
		out = append(out, a)
	}
	return out
}

func shuffleFlags(r *gen.R, args []string) []string {
	args = respell(r, args)
	if len(args) < 3 || r.Bool() {
		return args
	}
	// keep "-x v" pairs together
	groups := [][]string{}
	for i := 1; i < len(args); i++ {
		if !strings.Contains(args[i], "=") && strings.HasPrefix(args[i], "-") && args[i] != "--entropy" && i+1 < len(args) {
			groups = append(groups, []string{args[i], args[i+1]})
			i++
		} else {
			groups = append(groups, []string{args[i]})
		}
	}
	out := []string{args[0]}
	for _, j := range r.Perm(len(groups)) {
		out = append(out, groups[j]...)
	}
	return out
}

var c17FileLists = [][]string{
	{"alpha", "beta", "gamma", "delta", "alpha", "beta"},
	{"polish", "Polish", "apple", "pear"},
	{"egy", "kettő", "három", "négy"},
	{"solo"},
	{"ab", "a", "b", "ba", "aba"},
	{"x-ray", "x", "ray", "-"},
	{"123", "45", "6"},
	{"Polish", "March", "may"},
	{"語", "漢字", "かな", "語"},
	{"100%", "a%sb", "%d", "50%off", "plain"},
	{"caf\xe9", "\xe9clair", "na\xefve", "plain", "\xfcber"},
	{"back\\slash", "quo\"te", "tab", "$HOME", "`cmd`"},
}

func c17Words(c *Ctx, sample bool) {
	r := c.R
	args := []string{"words"}
	var input []string
	listDesc := "words"
	switch r.Intn(4) {
	case 0:
		input = spg.AgileWords
		if r.Bool() {
			args = append(args, "--list=words")
		}
	case 1:
		input = spg.AgileSyllables
		args = append(args, "--list=syllables")
		listDesc = "syllables"
	default:
		input = c17FileLists[r.Intn(len(c17FileLists))]
		path := filepath.Join(c.Dir, fmt.Sprintf("c17-%d-%d.txt", c.Case, r.U32()))
		sep := []string{"\n", " ", "\n\n", "\t", "\r\n", " \t \n", "\u00a0", "\u2003\n", "\v", "\f"}[r.Intn(10)] // every Unicode white space separates words
		if r.Chance(1, 10) {                                                                                     // thousands of words on one line (more than 64 KiB), then more lines
			big := make([]string, 0, 12000)
			for i := 0; i < 11000; i++ {
				big = append(big, fmt.Sprintf("word%dx", i))
			}
			input = append(append([]string{"first", "second"}, big...), "last", "verylast")
			os.WriteFile(path, []byte("first\nsecond\n"+strings.Join(big, " ")+"\nlast\nverylast\n"), 0o644)
			sep = ""
			c.Count("files_with_a_line_over_64KiB", 1)
		}
		if sep != "" {
			os.WriteFile(path, []byte(strings.Join(input, sep)+"\n"), 0o644)
		}
		defer os.Remove(path)
		if sep != "" && r.Chance(1, 5) { // the list arrives through a pipe: a path that is not a regular file
			opgenStdin = []byte(strings.Join(input, sep) + "\n")
			defer func() { opgenStdin = nil }()
			path = "/dev/stdin"
			c.Count("word_lists_read_from_a_pipe", 1)
		}
		args = append(args, "--file="+path)
		listDesc = fmt.Sprintf("file %q", input)
	}
	size := 4
	if r.Chance(4, 5) {
		size = r.Range(1, 8)
		if r.Chance(1, 20) {
			size = []int{0, -1}[r.Intn(2)]
		}
		args = append(args, fmt.Sprintf("--size=%d", size))
	}
	sepWord := "hyphen"
	if r.Chance(4, 5) {
		sepWord = c17SepWords[r.Intn(len(c17SepWords))]
		args = append(args, "--separator="+sepWord)
	}
	scheme := "none"
	if r.Chance(3, 4) {
		scheme = schemes[r.Intn(5)]
		args = append(args, "--capitalize="+scheme)
	}
	entropy := r.Chance(1, 4)
	if entropy {
		args = append(args, "--entropy")
	}
	args = shuffleFlags(r, args)
	kept := oracle.Normalize(input)
	mustRefuse := size < 1
	if entropy && mustRefuse {
		return
	}
	run, err := runOpgen(args)
	c.Exec(1)
	if err != nil {
		c.Inconclusive("cannot run opgen: " + err.Error())
		return
	}
	det := map[string]interface{}{"argv": args, "exit": run.exit, "stdout": head(run.stdout, 300), "stderr_head": head(run.stderr, 200), "list": head(listDesc, 120), "size": size, "separator": sepWord, "capitalize": scheme}
	lines := stdoutLines(run.stdout)
	lang := wlLanguage{kept: map[string]bool{}, titled: map[string]bool{}, n: size, scheme: scheme}
	for _, w := range kept {
		lang.kept[w] = true
		lang.titled[oracle.Title(w)] = true
		if len(w) > lang.maxLen {
			lang.maxLen = len(w)
		}
		if t := oracle.Title(w); len(t) > lang.maxLen {
			lang.maxLen = len(t)
		}
	}
	if sepWord == "digit" {
		for d := '0'; d <= '9'; d++ {
			lang.seps = append(lang.seps, string(d))
		}
	} else {
		lang.seps = []string{c17Sep[sepWord]}
	}
	if mustRefuse {
		if run.exit != 1 {
			c.Violate("refused-recipe-exit-status", fmt.Sprintf("opgen %q: the library refuses this recipe, documented exit status 1, got %d", args, run.exit), det)
		}
		c.Count("refusals_confirmed", 1)
		return
	}
	if run.exit != 0 {
		c.Violate("honourable-recipe-fails", fmt.Sprintf("opgen %q exits %d (stderr %q)", args, run.exit, head(run.stderr, 120)), det)
		return
	}
	if len(lines) != 1 {
		class := "stdout-not-one-line"
		if len(kept) < len(input) {
			class = "stdout-not-one-line:list-with-duplicates"
		}
		c.Violate(class, fmt.Sprintf("opgen %q printed %d lines on standard output: %q", args, len(lines), head(run.stdout, 160)), det)
		return
	}
	c.Distinct("nontrivial", strings.Join(args, " "))
	if entropy {
		wl, err := spg.NewWordList(input)
		if err != nil {
			return
		}
		rec := spg.NewWLRecipe(size, wl)
		rec.Capitalize = spg.CapScheme(scheme)
		switch sepWord {
		case "digit":
			rec.SeparatorFunc = spg.SFDigits1
		case "none":
			rec.SeparatorFunc = spg.SFNone
		default:
			v := c17Sep[sepWord]
			rec.SeparatorFunc = func() (string, spg.FloatE) { return v, 0 }
		}
		want := fmt.Sprintf("%.2f", rec.Entropy())
		// independently of the library: the documented formula over the normalised list
		L := float64(size)
		ref := L * math.Log2(float64(len(kept)))
		if oracle.AllCapitalizable(kept) {
			switch scheme {
			case "random":
				ref += L
			case "one":
				ref += math.Log2(L)
			}
		}
		if sepWord == "digit" {
			ref += (L - 1) * math.Log2(10)
		}
		var printed float64
		_, perr := fmt.Sscanf(lines[0], "%f", &printed)
		if lines[0] != want || perr != nil || math.Abs(printed-ref) > 0.0051+4*oracle.Ulp32(math.Max(ref, 1)) {
			c.Violate("entropy-line-wrong", fmt.Sprintf("opgen %q printed %q; a fresh equivalent library recipe reports %s, the documented formula gives %.4f", args, lines[0], want, ref), det)
		}
		c.Count("entropy_lines_confirmed", 1)
		return
	}
	if !lang.member(lines[0]) {
		c.Violate("password-not-in-recipe-language", fmt.Sprintf("opgen %q printed %q, which is not %d words of the list joined by %q with capitalisation %q", args, lines[0], size, lang.seps, scheme), det)
		return
	}
	c.Count("passwords_confirmed", 1)
	if sample {
		c.Sample(det)
	}
}

// wlLanguage decides membership of a line in word (sep word)^(n-1) exactly.
type wlLanguage struct {
	kept, titled map[string]bool
	seps         []string
	n            int
	scheme       string
	maxLen       int
}

func (l wlLanguage) member(line string) bool {
	type state struct{ pos, words, caps int }
	seen := map[state]bool{}
	var rec func(s state) bool
	rec = func(s state) bool {
		if seen[s] {
			return false
		}
		seen[s] = true
		if s.words == l.n {
			if s.pos != len(line) {
				return false
			}
			return l.scheme != "one" || s.caps == 1
		}
		// separator before every word but the first
		starts := []int{s.pos}
		if s.words > 0 {
			starts = starts[:0]
			for _, sep := range l.seps {
				if strings.HasPrefix(line[s.pos:], sep) {
					starts = append(starts, s.pos+len(sep))
				}
			}
		}
		for _, st := range starts {
			for end := st; end <= len(line) && end-st <= l.maxLen; end++ {
				w := line[st:end]
				plain, title := l.kept[w], l.titled[w]
				if !plain && !title {
					continue
				}
				first := s.words == 0
				switch l.scheme {
				case "none":
					if plain && rec(state{end, s.words + 1, 0}) {
						return true
					}
				case "all":
					if title && rec(state{end, s.words + 1, 0}) {
						return true
					}
				case "first":
					if ((first && title) || (!first && plain)) && rec(state{end, s.words + 1, 0}) {
						return true
					}
				case "one":
					if plain && rec(state{end, s.words + 1, s.caps}) {
						return true
					}
					if title && s.caps == 0 && rec(state{end, s.words + 1, 1}) {
						return true
					}
				default: // random
					if rec(state{end, s.words + 1, 0}) {
						return true
					}
				}
			}
		}
		return false
	}
	return rec(state{0, 0, 0})
}
