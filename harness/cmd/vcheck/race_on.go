//go:build race

package main

const raceEnabled = true
