package main

import (
	"fmt"
	"math"

	"math/big"
	"strings"
	"verifharness/explore"

	spg "go.1password.io/spg"

	"verifharness/oracle"
	"verifharness/tape"
)

// C04 — wordlist passwords: word, capitalisation and separator choices uniform and independent.
//
// Monitor: exact joint distribution of the real WLRecipe.Generate over complete
// decision trees against the documented product law; slices through large lists.

func c04SliceCount(tier string) int {
	if tier == "thorough" {
		return 48
	}
	return 12
}

func init() {
	register(&Prop{
		ID:    "C04",
		Level: "exploration",
		Rule:  "fixed panel + VERIF_SEED-generated small wordlist recipes (lists of 1-5/8 words, sizes 3 and 5 always present, lengths 1-3/4, the five schemes, constant / preset / constructed / user separators), each explored over its complete decision tree through the real Generate and compared, token sequence by token sequence, with the documented product law (exact rationals); slices through AgileWords, AgileSyllables and seed-built lists of 1000-20000 words (every word index at every position, every position of the one scheme, all 2^L coin patterns). evaluations = executions of Generate; distinct_nontrivial = distinct recipes with at least 2 distinct outputs",
		Assumptions: []string{
			"each bounded draw is uniform (C01)",
			"premise of the property: lists in which two kept entries share a title-cased form are not judged",
			"the separator function's own distribution is measured by exploring the function alone",
		},
		MinEvals: 1000,
		NumCases: func(tier string, seed uint64) int {
			return len(wlTreePanel) + wlTreeCounts(tier) + c04SliceCount(tier)
		},
		RunCase: c04Case,
	})
}

func c04Case(c *Ctx) {
	ntree := len(wlTreePanel) + wlTreeCounts(c.Tier)
	if c.Case >= ntree {
		c04Slice(c, c.Case-ntree)
		return
	}
	w, lim := wlTreeCaseFor(c.Tier, c.Seed, c.Case)
	c04Tree(c, w, lim, "", c.Case < len(wlTreePanel))
}

// c04Tree explores one wordlist recipe completely and compares the observed joint distribution with the
// documented product law. prefix is put in front of the violation classes (C01 reuses this monitor for
// its generator-level clause).
func c04Tree(c *Ctx, w WLCase, lim explore.Limits, prefix string, sample bool) {
	if w.SepTrials > 0 {
		defer knobs(w.SepTrials, 1)()
		c.Count("trees_with_failing_separator", 1)
	}
	b, err := w.Build()
	if err != nil {
		c.Note("list refused: " + err.Error())
		return
	}
	if !oracle.PremiseHolds(b.Kept) {
		c.Count("premise_not_met", 1)
		return
	}
	ref, ok := wlReference(w, b)
	if !ok {
		c.Count("no_reference_distribution", 1)
		return
	}
	res := exploreWL(w, b, lim, nil)
	c.Exec(res.Leaves + res.Cuts)
	c.Count("tree_leaves", int64(res.Leaves))
	c.Count("draws", res.Draws)
	if len(res.Anomalies) > 0 {
		c.Inconclusive("tape anomaly: " + res.Anomalies[0])
		return
	}
	if !res.Complete {
		c.Count("trees_not_resolved", 1)
	} else {
		c.Count("trees_fully_resolved", 1)
	}
	det := map[string]interface{}{"recipe": w.String(), "leaves": res.Leaves, "outputs": len(res.Mass), "reference_outputs": len(ref)}
	if len(res.Mass) >= 2 {
		c.Distinct("nontrivial", w.String())
	}
	for key, m := range res.Mass {
		if !strings.HasPrefix(key, "PW:") {
			c.Violate(prefix+"generation-failed", fmt.Sprintf("recipe %s: outcome %s with probability %s", w.String(), key, ratString(m)), det)
			return
		}
		want := ref[key]
		if want == nil {
			c.Violate(prefix+"impossible-output", fmt.Sprintf("recipe %s returned %s (probability >= %s), which the recipe cannot produce", w.String(), key, ratString(m)), det)
			return
		}
	}
	for key, want := range ref {
		m := res.Mass[key]
		if m == nil {
			m = new(big.Rat)
		}
		hi := new(big.Rat).Add(m, res.Unresolved)
		if m.Sign() == 0 && hi.Cmp(want) < 0 {
			c.Violate(prefix+"output-unreachable", fmt.Sprintf("recipe %s never returns %s (unresolved mass %s), which should have probability %s", w.String(), key, ratString(res.Unresolved), ratString(want)), det)
			return
		}
		if m.Cmp(want) > 0 || hi.Cmp(want) < 0 {
			class := "distribution-differs"
			switch {
			case w.Scheme == "one" || w.Scheme == "random":
				class += ":" + w.Scheme
			}
			c.Violate(prefix+class, fmt.Sprintf("recipe %s: P(%s) = %s (+ unresolved %s) but the product of uniform, independent choices gives %s", w.String(), key, ratString(m), ratString(res.Unresolved), ratString(want)), det)
			return
		}
	}
	if sample {
		var any *big.Rat
		for _, m := range res.Mass {
			any = m
			break
		}
		det["example_mass"] = ratString(any)
		c.Sample(det)
	}
}

// coinStats: long passwords under the random scheme on real OS randomness. Trees cannot reach these lengths,
// so this is a counting monitor with a threshold of 8 standard deviations: a fair, independent coin per
// position is flagged with probability below 1e-13 per run; a coin that is heads 53% of the time at some
// position is flagged with near certainty.
func coinStats(c *Ctx, prefix string, L, N int) {
	wl, err := spg.NewWordList([]string{"heads", "tails"})
	if err != nil {
		return
	}
	rec := spg.NewWLRecipe(L, wl)
	rec.Capitalize = spg.CSRandom
	caps := make([]int, L)
	words := make([]int, L)
	for i := 0; i < N; i++ {
		g := runGen(rec, nil)
		if g.Pw == nil {
			c.Violate(prefix+"generation-failed", fmt.Sprintf("random scheme, Length %d: err=%v panic=%v", L, g.Err, g.Panic), nil)
			return
		}
		for j, a := range g.Pw.Tokens().Atoms() {
			if j >= L {
				break
			}
			if a == "Heads" || a == "Tails" {
				caps[j]++
			}
			if a == "heads" || a == "Heads" {
				words[j]++
			}
		}
	}
	c.Exec(N)
	c.Count("coin_statistics_generations", int64(N))
	sigma := 0.5 / math.Sqrt(float64(N))
	for j := 0; j < L; j++ {
		f := float64(caps[j]) / float64(N)
		if math.Abs(f-0.5) > 8*sigma {
			c.Violate(prefix+"coin-not-fair", fmt.Sprintf("random scheme, Length %d: position %d is capitalised in %d of %d passwords (%.4f); a fair coin stays within %.4f of 0.5 (8 sigma)", L, j, caps[j], N, f, 8*sigma),
				map[string]interface{}{"length": L, "position": j, "capitalised": caps[j], "samples": N})
			return
		}
		fw := float64(words[j]) / float64(N)
		if math.Abs(fw-0.5) > 8*sigma {
			c.Violate(prefix+"word-pick-not-uniform", fmt.Sprintf("two-word list, Length %d: position %d holds the first word in %d of %d passwords (%.4f)", L, j, words[j], N, fw), nil)
			return
		}
	}
	c.Distinct("nontrivial", fmt.Sprintf("coinstats|%d", L))
}

// c04Slice: large lists. With all other draws pinned, varying one word draw
// over all size indices must give size distinct passwords, each atom a kept
// word; the one scheme over all L positions; the random scheme over all 2^L
// coin patterns.
func c04Slice(c *Ctx, k int) {
	var words []string
	name := ""
	switch k % 4 {
	case 0:
		words, name = spg.AgileWords, "AgileWords"
	case 1:
		words, name = spg.AgileSyllables, "AgileSyllables"
	default:
		n := c.R.Range(1000, 20000)
		if !c.Thorough() {
			n = c.R.Range(1000, 4000)
		}
		if k%8 == 2 { // more words than 16 bits can index
			n = c.R.Range(66000, 70000)
		}
		words = make([]string, n)
		for i := range words {
			words[i] = fmt.Sprintf("w%dx%s", i, string(rune('a'+i%26)))
		}
		name = fmt.Sprintf("seed-built list of %d words", n)
	}
	wl, err := spg.NewWordList(words)
	if err != nil {
		c.Inconclusive("cannot build list: " + err.Error())
		return
	}
	kept := map[string]bool{}
	titled := map[string]bool{}
	for _, w := range oracle.Normalize(words) {
		kept[w] = true
		titled[oracle.Title(w)] = true
	}
	size := len(kept)
	L := c.R.Range(2, 5)
	scheme := schemes[k%len(schemes)]
	if k%4 == 3 {
		coinStats(c, "", []int{32, 40, 64, 70}[(k/4)%4], 40000)
	}
	if k%4 == 3 { // long passwords over a short list: every position / coin far beyond any machine-word width
		words = words[:20]
		wl, _ = spg.NewWordList(words)
		kept, titled = map[string]bool{}, map[string]bool{}
		for _, w := range words {
			kept[w] = true
			titled[oracle.Title(w)] = true
		}
		size = 20
		L = c.R.Range(33, 70)
		scheme = []string{"one", "random"}[(k/4)%2]
		name = fmt.Sprintf("20-word list, Length %d", L)
	}
	rec := spg.NewWLRecipe(L, wl)
	rec.Capitalize = spg.CapScheme(scheme)
	rec.SeparatorChar = "|"
	det := map[string]interface{}{"list": name, "size": size, "length": L, "scheme": scheme}
	// learn the draw layout by observation: run once with a long PRNG script and read the path
	base := make([]uint32, 3*L+4)
	for i := range base {
		base[i] = c.R.U32()
	}
	t0 := &tape.Tape{Script: base}
	g0 := runGen(*rec, t0)
	c.Exec(1)
	if g0.Pw == nil {
		c.Violate("generation-failed", fmt.Sprintf("%s L=%d %s: err=%v panic=%v", name, L, scheme, g0.Err, g0.Panic), det)
		return
	}
	path := t0.Path
	for d, st := range path {
		if int(st.N) != size && int(st.N) != L && st.N != 2 {
			continue
		}
		if st.N > 100000 {
			continue
		}
		outs := map[string]bool{}
		for j := uint32(0); j < st.N; j++ {
			script := make([]uint32, len(path))
			for i, s := range path {
				script[i] = s.I
			}
			script[d] = j
			if j == st.N-1 {
				script[d] = tape.Last
			}
			g := runGen(*rec, &tape.Tape{Script: script})
			c.Exec(1)
			if g.Pw == nil {
				c.Violate("generation-failed", fmt.Sprintf("%s: err=%v panic=%v", name, g.Err, g.Panic), det)
				return
			}
			atoms := g.Pw.Tokens().Atoms()
			if len(atoms) != L {
				c.Note("atom count differs (C05's business)")
			}
			for _, a := range atoms {
				if !kept[a] && !titled[a] {
					c.Violate("impossible-output", fmt.Sprintf("%s produced atom %q which is not a word of the list", name, a), det)
					return
				}
			}
			outs[g.Pw.String()] = true
		}
		c.Count("slices", 1)
		if int(st.N) == size {
			c.Count("word_slices", 1)
		}
		if len(outs) != int(st.N) {
			c.Violate("slice-not-bijective", fmt.Sprintf("%s L=%d %s: varying draw %d over all %d alternatives gave %d distinct passwords", name, L, scheme, d, st.N, len(outs)), det)
			return
		}
	}
	c.Distinct("nontrivial", fmt.Sprintf("slice|%s|%d|%s", name, L, scheme))
	if k < 2 {
		det["draws_per_generation"] = len(path)
		c.Sample(det)
	}
}
