package main

import (
	"fmt"
	"math"
	"math/big"
	"strings"

	spg "go.1password.io/spg"

	"verifharness/gen"
	"verifharness/oracle"
	"verifharness/tape"
)

// C13 — Generate fails only when the recipe cannot be honoured: an error, never a panic.

func c13Counts(tier string) (batches, per int) {
	if tier == "thorough" {
		return 12000, 50
	}
	return 400, 25
}

func init() {
	register(&Prop{
		ID:    "C13",
		Level: "exploration",
		Rule:  "case 0: all malformed / zero-valued / partially initialised recipe shapes of both kinds, and wordlist recipes whose capitalisation scheme is none of the defined constants (password or error, never a panic); other cases: VERIF_SEED-generated character recipes concentrated around the refusal threshold (disjoint, overlapping, nested and single-character required sets, class flags, lengths 1-40) under the default and modified MaxTrials/MaxFailRate, each judged against the exact rational success probability: refusal direction on a script whose first candidate is valid, acceptance direction on that script and on real OS randomness, SuccessProbability() against the exact fraction, attempt budget on a script on which every candidate fails, and recovery after k<MaxTrials failures. evaluations = Generate/SuccessProbability calls; distinct_nontrivial = distinct (recipe, knobs) with at least one live required set",
		Assumptions: []string{
			"threshold p* = 1 - MaxFailRate^(1/MaxTrials); recipes with p within 1% of p* are not judged for refusal (float32 arithmetic legitimately decides either way)",
			"recipes in which exclusion empties one required set while another survives are not judged in the must-not-refuse direction",
			"all-candidates-fail scripts are written in draw indices of the sorted alphabet (verif canon hook)",
		},
		MinEvals:         1000,
		NumCases:         func(tier string, seed uint64) int { b, _ := c13Counts(tier); return b + 1 },
		RunCase:          c13Case,
		CrashIsViolation: true,
	})
}

type knobSet struct {
	Trials   int
	FailRate float64
}

func c13Knobs(r *gen.R) knobSet {
	if r.Chance(6, 10) {
		return knobSet{200, 1e-9}
	}
	return knobSet{[]int{1, 2, 7, 50, 200}[r.Intn(5)], []float64{1e-9, 1e-3, 0.5, 1}[r.Intn(4)]}
}

func c13Recipe(r *gen.R) spg.CharRecipe {
	rec := spg.CharRecipe{}
	switch r.Intn(7) {
	case 0: // the suite's family generalised: k disjoint custom sets
		k := r.Range(1, 5)
		sets := []string{"abcde", "FGHIJ", "01234", "!@.-_", "xyzXYZ"}
		for i := 0; i < k; i++ {
			rec.RequireSets = append(rec.RequireSets, subsetOf(r, oracle.Chars(sets[i]), 1, 5))
		}
		if r.Bool() {
			rec.Allow = spg.CTFlag(r.Intn(16))
		}
		rec.Length = r.Range(1, k+6)
	case 1: // single-character requirement in a large alphabet (p = 1-(1-1/a)^L crosses the threshold near L=7)
		rec.Allow = spg.All
		rec.RequireSets = []string{string(rune('a' + r.Intn(26)))}
		if r.Bool() {
			rec.Exclude = spg.Ambiguous
		}
		rec.Length = r.Range(1, 16)
	case 2: // classes
		rec.Allow = spg.CTFlag(r.Intn(16))
		rec.Require = spg.CTFlag(r.Intn(32))
		if r.Chance(1, 2) {
			rec.Exclude = spg.Ambiguous
		}
		rec.Length = r.Range(1, 24)
	case 3: // overlapping class + custom
		rec.Allow = spg.Letters
		rec.Require = spg.Digits
		rec.RequireSets = []string{subsetOf(r, oracle.Chars("0123456789"), 1, 4)}
		rec.Length = r.Range(1, 12)
	case 4:
		rec = reqPatternRecipe(r, r.Range(1, 4))
		rec.Length = r.Range(1, 10)
	case 5:
		rec = smallCharRecipe(r, 8, 8, 3)
	default:
		rec = anyCharRecipe(r, 40)
	}
	if r.Chance(1, 40) { // many required sets (7-12): the count has thousands of inclusion-exclusion terms
		k := r.Range(7, 12)
		rec = spg.CharRecipe{}
		letters := oracle.Chars("abcdefghijklmnopqrstuvwxyzABCDEFGHIJKLMNOPQRSTUVWXYZ0123456789")
		for i := 0; i < k; i++ {
			w := r.Range(2, 5)
			rec.RequireSets = append(rec.RequireSets, strings.Join(letters[5*i:5*i+w], ""))
		}
		if r.Chance(1, 3) { // two of them overlap
			rec.RequireSets[k-1] += firstChar(rec.RequireSets[0])
		}
		rec.Length = r.Range(k, 3*k+10)
	}
	if r.Chance(1, 12) { // long passwords: counts beyond float64 range
		rec.Length = []int{100, 172, 173, 200, 400, 1000}[r.Intn(6)]
	}
	return rec
}

// c13WordLists: recipes with a non-empty list and a positive length can always be honoured, whatever the
// size of the words and separators.
func c13WordLists(c *Ctx) {
	for k := 0; k < 6; k++ {
		w := genWLCase(c.R, wlOpts{minWords: 1, maxWords: 5, maxLen: 6, twins: true, uncap: true, hostileWords: true, noReqSep: true})
		switch k % 3 {
		case 0:
			w.Words = append(w.Words, strings.Repeat("long", 70), strings.Repeat("é", 300))
		case 1:
			w.SepKind, w.SepChar = "char", strings.Repeat("-=", 150)
		case 2: // the empty string is a word NewWordList accepts
			w.Words = append(w.Words, "")
			w.Scheme = []string{"first", "all", "one", "random"}[c.R.Intn(4)]
		}
		b, err := w.Build()
		if err != nil {
			continue
		}
		for run := 0; run < 4; run++ {
			s := make([]uint32, 6*w.Length+8)
			for i := range s {
				s[i] = c.R.U32()
				if run == 0 {
					s[i] = tape.Last
				}
			}
			tp := &tape.Tape{Script: s, AutoExtend: true}
			if run == 1 {
				tp.RejectAt, tp.RejectRun = map[int]bool{1: true, 2: true}, 20
			}
			g := runGen(b.fresh(w).Rec, tp)
			c.Exec(1)
			c.Count("wordlist_recipes_that_must_succeed", 1)
			if g.Pw == nil {
				c.Violate("honourable-wordlist-recipe-fails", fmt.Sprintf("recipe %s has a non-empty list and positive length but Generate() gave err=%v panic=%v", w.String(), g.Err, g.Panic), map[string]interface{}{"recipe": w.String()})
				return
			}
		}
		c.Distinct("nontrivial", "wl|"+w.String())
	}
}

func c13Case(c *Ctx) {
	if c.Case == 0 {
		c13Malformed(c)
		return
	}
	_, per := c13Counts(c.Tier)
	if c.Case%8 == 1 {
		c13WordLists(c)
	}
	for k := 0; k < per; k++ {
		rec := c13Recipe(c.R)
		kn := c13Knobs(c.R)
		if nReqSets(rec) > 12 {
			continue
		}
		c13Judge(c, rec, kn, k < 1 && c.Case < 3)
	}
}

func c13Malformed(c *Ctx) {
	type shape struct {
		name string
		g    interface{}
	}
	one, _ := spg.NewWordList([]string{"solo"})
	three, _ := spg.NewWordList([]string{"a", "b", "c"})
	shapes := []shape{
		{"CharRecipe{}", spg.CharRecipe{}},
		{"CharRecipe{Length:-1, Allow:All}", spg.CharRecipe{Length: -1, Allow: spg.All}},
		{"CharRecipe{Length:0, Allow:All}", spg.CharRecipe{Length: 0, Allow: spg.All}},
		{"CharRecipe{Length:5} (empty alphabet)", spg.CharRecipe{Length: 5}},
		{"CharRecipe{Length:5, Allow:Digits, Exclude:Digits}", spg.CharRecipe{Length: 5, Allow: spg.Digits, Exclude: spg.Digits}},
		{"CharRecipe{Length:5, AllowChars:ab, ExcludeChars:ab}", spg.CharRecipe{Length: 5, AllowChars: "ab", ExcludeChars: "ab"}},
		{"CharRecipe{Length:3, Require:Digits, Exclude:Digits}", spg.CharRecipe{Length: 3, Require: spg.Digits, Exclude: spg.Digits}},
		{"CharRecipe{Length:3, RequireSets:{\"\"}}", spg.CharRecipe{Length: 3, RequireSets: []string{""}}},
		{"CharRecipe{Length:1, RequireSets:{a,b}} (cannot be met)", spg.CharRecipe{Length: 1, RequireSets: []string{"a", "b"}}},
		{"CharRecipe{Length: math.MinInt64}", spg.CharRecipe{Length: math.MinInt64, Allow: spg.All}},
		{"&CharRecipe{} via NewCharRecipe(0)", *spg.NewCharRecipe(0)},
		{"NewCharRecipe(-7)", *spg.NewCharRecipe(-7)},
		{"WLRecipe{}", spg.WLRecipe{}},
		{"WLRecipe{Length:3} (no list)", spg.WLRecipe{Length: 3}},
		{"NewWLRecipe(3, nil)", *spg.NewWLRecipe(3, nil)},
		{"NewWLRecipe(3, &WordList{})", *spg.NewWLRecipe(3, &spg.WordList{})},
		{"NewWLRecipe(0, one)", *spg.NewWLRecipe(0, one)},
		{"NewWLRecipe(-2, three)", *spg.NewWLRecipe(-2, three)},
		{"WLRecipe{Length:3, Capitalize:random} (no list)", spg.WLRecipe{Length: 3, Capitalize: spg.CSRandom}},
		{"WLRecipe{Length:2, SeparatorFunc:SFDigits1} (no list)", spg.WLRecipe{Length: 2, SeparatorFunc: spg.SFDigits1}},
	}
	for _, s := range shapes {
		for run := 0; run < 2; run++ {
			var g GenOut
			if run == 0 {
				g = runGen(s.g, nil)
			} else {
				g = runGen(s.g, &tape.Tape{Script: []uint32{0, 0, 0, 0, 0, 0, 0, 0, 0, 0, 0, 0}})
			}
			c.Exec(1)
			c.Distinct("nontrivial", s.name)
			switch {
			case g.Panic != nil && !(run == 1 && g.SourcePanic()):
				c.Violate("panic-on-malformed-recipe:"+shapeClass(s.name), fmt.Sprintf("%s.Generate() panicked: %v", s.name, g.Panic), map[string]interface{}{"recipe": s.name, "panic": fmt.Sprint(g.Panic)})
			case g.Pw != nil:
				c.Violate("password-from-malformed-recipe", fmt.Sprintf("%s.Generate() returned a password %q", s.name, g.Pw.String()), map[string]interface{}{"recipe": s.name})
			case g.Err == nil && g.Panic == nil:
				c.Violate("nil-nil-from-malformed-recipe", fmt.Sprintf("%s.Generate() returned (nil, nil)", s.name), nil)
			}
		}
		c.Sample(map[string]interface{}{"malformed_recipe": s.name})
	}
	// a capitalisation scheme that is none of the defined constants: a password or an error, never a panic
	for _, sch := range oddSchemes {
		rec := spg.NewWLRecipe(3, three)
		rec.Capitalize = spg.CapScheme(sch)
		for _, sf := range []spg.SFFunction{nil, spg.SFDigits1} {
			rec.SeparatorFunc = sf
			g := runGen(*rec, nil)
			c.Exec(1)
			c.Distinct("nontrivial", "undefined-scheme|"+sch)
			if g.Panic != nil {
				c.Violate("panic-on-undefined-capitalisation-scheme", fmt.Sprintf("NewWLRecipe(3, three) with Capitalize=%q: Generate() panicked: %v", sch, g.Panic), map[string]interface{}{"scheme": sch, "panic": fmt.Sprint(g.Panic)})
				break
			}
			if g.Pw != nil && g.Err != nil {
				c.Violate("password-and-error", fmt.Sprintf("NewWLRecipe(3, three) with Capitalize=%q returned both a password and an error", sch), nil)
			}
		}
	}
	// well-formed boundary shapes that must succeed
	for _, ok := range []shape{
		{"NewWLRecipe(3, one-word list)", *spg.NewWLRecipe(3, one)},
		{"NewWLRecipe(1, three)", *spg.NewWLRecipe(1, three)},
		{"CharRecipe{Length:1, AllowChars:x}", spg.CharRecipe{Length: 1, AllowChars: "x"}},
		{"CharRecipe{Length:3, RequireSets:{\"\", \"a\"}}", spg.CharRecipe{Length: 3, RequireSets: []string{"", "a"}}},
	} {
		g := runGen(ok.g, nil)
		c.Exec(1)
		if g.Pw == nil {
			c.Violate("honourable-recipe-failed", fmt.Sprintf("%s.Generate() gave err=%v panic=%v", ok.name, g.Err, g.Panic), nil)
		}
	}
}

func shapeClass(name string) string {
	if len(name) > 2 && (name[:2] == "WL" || name[:5] == "NewWL") {
		return "wordlist-recipe-without-list"
	}
	return "character-recipe"
}

func c13Judge(c *Ctx, rec spg.CharRecipe, kn knobSet, sample bool) {
	defer knobs(kn.Trials, kn.FailRate)()
	if c.R.Chance(1, 2) { // recipes that differ only in how the same characters are grouped into fields, used first
		tc := charTreeCase{Siblings: siblingsOf(c.R, rec)}
		tc.preCalls()
		c.Count("sibling_recipes_used_first", int64(len(tc.Siblings)))
	}
	sem := oracle.CharSemOf(rec)
	desc := map[string]interface{}{"recipe": descChar(rec), "max_trials": kn.Trials, "max_fail_rate": kn.FailRate}
	key := fmt.Sprintf("%s|%d|%g", descChar(rec), kn.Trials, kn.FailRate)
	p := successP(sem)
	pstar := refusalThreshold(kn.Trials, kn.FailRate)

	// --- SuccessProbability against the exact fraction
	if p != nil && sem.Emptied == 0 {
		sp := float64(rec.SuccessProbability())
		c.Exec(1)
		pf, _ := p.Float64()
		desc["exact_success_probability"] = ratString(p)
		desc["reported_success_probability"] = fmt.Sprint(sp)
		switch {
		case math.IsNaN(sp):
			c.Violate("success-probability-nan", fmt.Sprintf("recipe %s: SuccessProbability() is NaN, exact value %s", descChar(rec), ratString(p)), desc)
			return
		case p.Sign() == 0:
			if sp != 0 {
				c.Violate("success-probability-wrong", fmt.Sprintf("recipe %s: no candidate can satisfy the requirements but SuccessProbability()=%v", descChar(rec), sp), desc)
				return
			}
		default:
			eReq := oracle.Log2Big(sem.Count(sem.Length))
			eAll := oracle.Log2Big(sem.Total(sem.Length))
			tol := oracle.Ulp32(eReq) + oracle.Ulp32(eAll) + 1e-6
			if sp <= 0 || math.Abs(math.Log2(sp)-oracle.Log2Rat(p)) > tol {
				c.Violate("success-probability-wrong", fmt.Sprintf("recipe %s: SuccessProbability()=%v, exact fraction %s = %.9g (log2 tolerance %.3g)", descChar(rec), sp, ratString(p), pf, tol), desc)
				return
			}
		}
		c.Count("success_probabilities_checked", 1)
	}

	// --- what must happen
	mustRefuse := sem.Length < 1 || len(sem.Alphabet) == 0 || p.Sign() == 0
	mustAccept := false
	if !mustRefuse {
		pf, _ := p.Float64()
		switch {
		case pf < 0.99*pstar:
			mustRefuse = true
		case pf > 1.01*pstar && sem.Emptied == 0:
			mustAccept = true
		}
	}
	// a script whose first candidate is valid (when one exists)
	var validScript []uint32
	if sem.Length >= 1 && len(sem.Alphabet) > 0 && p.Sign() > 0 {
		for try := 0; try < 50 && validScript == nil; try++ {
			s, ok := forcedScript(c.R, sem, c.R.Intn(sem.Length), c.R.Intn(len(sem.Alphabet)))
			if ok {
				validScript = s
			}
		}
	}
	script := validScript
	if script == nil {
		script = make([]uint32, 64)
	}
	t := &tape.Tape{Script: script}
	if c.R.Chance(1, 3) { // a legal stream: many rejected raw words in a row before an accepted one
		t.RejectAt = map[int]bool{1 + c.R.Intn(3): true}
		t.RejectRun = []int{1, 2, 17, 40}[c.R.Intn(4)]
	}
	g := runGen(rec, t)
	c.Exec(1)
	if len(sem.ReqLive) > 0 {
		c.Distinct("nontrivial", key)
	}
	switch {
	case g.Panic != nil && !g.SourcePanic():
		c.Violate("generate-panics", fmt.Sprintf("recipe %s: Generate() panicked: %v", descChar(rec), g.Panic), desc)
		return
	case g.Pw != nil && g.Err != nil:
		c.Violate("password-and-error", fmt.Sprintf("recipe %s: Generate() returned both a password and an error", descChar(rec)), desc)
		return
	case mustRefuse && g.Err == nil:
		what := "a password"
		if g.Pw == nil {
			what = fmt.Sprintf("panic %v", g.Panic)
		}
		c.Violate("unhonourable-recipe-not-refused", fmt.Sprintf("recipe %s with MaxTrials=%d MaxFailRate=%g cannot be honoured (p=%s, threshold %.4g) but Generate() gave %s instead of an error", descChar(rec), kn.Trials, kn.FailRate, pString(p), pstar, what), desc)
		return
	case mustAccept && validScript != nil && g.Pw == nil:
		class := "honourable-recipe-refused"
		if overlapping(sem) {
			class = "honourable-recipe-refused-overlapping-required-sets"
		}
		c.Violate(class, fmt.Sprintf("recipe %s with MaxTrials=%d MaxFailRate=%g has single-attempt success %s = %.4g, threshold %.4g, and the first scripted candidate is valid, but Generate() gave err=%v panic=%v after %d draws", descChar(rec), kn.Trials, kn.FailRate, pString(p), pFloat(p), pstar, g.Err, g.Panic, t.Draws), desc)
		return
	}
	if mustRefuse {
		c.Count("refusals_confirmed", 1)
		desc["draws_before_refusal"] = t.Draws
	}
	if g.Pw != nil {
		if cl, msg := checkCharPassword(sem, g.Pw); cl != "" && sem.Emptied == 0 {
			c.Violate("invalid-password:"+cl, fmt.Sprintf("recipe %s: %s", descChar(rec), msg), desc)
			return
		}
	}
	if mustAccept {
		c.Count("acceptances_confirmed", 1)
		// real randomness: no panic, valid when returned
		for i := 0; i < 3; i++ {
			g := runGen(rec, nil)
			c.Exec(1)
			if g.Panic != nil {
				c.Violate("generate-panics", fmt.Sprintf("recipe %s: Generate() panicked on OS randomness: %v", descChar(rec), g.Panic), desc)
				return
			}
			if g.Pw != nil {
				if cl, msg := checkCharPassword(sem, g.Pw); cl != "" {
					c.Violate("invalid-password:"+cl, fmt.Sprintf("recipe %s: %s", descChar(rec), msg), desc)
					return
				}
			}
		}
		c13Budget(c, rec, sem, kn, validScript, desc)
	}
	if sample {
		c.Sample(desc)
	}
}

func pString(p *big.Rat) string {
	if p == nil {
		return "undefined"
	}
	return ratString(p)
}

func pFloat(p *big.Rat) float64 {
	if p == nil {
		return math.NaN()
	}
	f, _ := p.Float64()
	return f
}

// c13Budget: a script on which every candidate is invalid must end in an
// error after at most MaxTrials candidates; failing k < MaxTrials times and
// then offering a valid candidate must return that password.
func c13Budget(c *Ctx, rec spg.CharRecipe, sem oracle.CharSem, kn knobSet, validScript []uint32, desc map[string]interface{}) {
	if len(sem.ReqLive) == 0 || validScript == nil {
		return
	}
	L, a := sem.Length, len(sem.Alphabet)
	// find an invalid candidate
	var bad []uint32
	for try := 0; try < 200 && bad == nil; try++ {
		cand := make([]uint32, L)
		chars := make([]string, L)
		for i := range cand {
			cand[i] = uint32(c.R.Intn(a))
			if try%2 == 0 {
				cand[i] = cand[0] // all-equal candidates miss disjoint requirements
			}
			chars[i] = sem.Alphabet[cand[i]]
		}
		if !sem.MeetsReq(chars) {
			bad = cand
		}
	}
	if bad == nil {
		c.Count("no_invalid_candidate_found", 1)
		return
	}
	// (a) all attempts fail
	script := []uint32{}
	for i := 0; i < kn.Trials+8; i++ {
		script = append(script, bad...)
	}
	t := &tape.Tape{Script: script}
	g := runGen(rec, t)
	c.Exec(1)
	c.Count("all_attempts_fail_runs", 1)
	switch {
	case g.Panic != nil:
		c.Violate("budget-exceeded-or-panic", fmt.Sprintf("recipe %s MaxTrials=%d: on a stream where every candidate fails Generate() panicked (%v) after %d draws (= %d candidates)", descChar(rec), kn.Trials, g.Panic, t.Draws, t.Draws/L), desc)
		return
	case g.Pw != nil:
		c.Violate("password-from-failing-stream", fmt.Sprintf("recipe %s: every scripted candidate misses a requirement, yet Generate() returned %q", descChar(rec), g.Pw.String()), desc)
		return
	case len(t.Path) > kn.Trials*L:
		c.Violate("budget-exceeded-or-panic", fmt.Sprintf("recipe %s MaxTrials=%d: %d draws = more than %d candidates", descChar(rec), kn.Trials, len(t.Path), kn.Trials), desc)
		return
	}
	c.Max("max_candidates_seen", int64(len(t.Path)/L))
	if len(t.Path) < kn.Trials*L {
		c.Count("fewer_attempts_than_permitted", 1)
	}
	// (b) k failures, then a valid candidate
	if kn.Trials >= 2 {
		k := c.R.Range(1, kn.Trials-1)
		if c.R.Chance(1, 3) {
			k = kn.Trials - 1
		}
		script = script[:0]
		for i := 0; i < k; i++ {
			script = append(script, bad...)
		}
		script = append(script, validScript...)
		t := &tape.Tape{Script: script}
		g := runGen(rec, t)
		c.Exec(1)
		c.Count("recover_after_k_failures_runs", 1)
		if g.Pw == nil {
			c.Violate("gave-up-early", fmt.Sprintf("recipe %s MaxTrials=%d: after %d failing candidates a valid one was offered but Generate() gave err=%v panic=%v", descChar(rec), kn.Trials, k, g.Err, g.Panic), desc)
			return
		}
		if cl, msg := checkCharPassword(sem, g.Pw); cl != "" {
			c.Violate("invalid-password:"+cl, fmt.Sprintf("recipe %s: %s", descChar(rec), msg), desc)
		}
	}
}
