package main

import (
	"encoding/json"
	"fmt"
	"math"
	"os"
	"os/exec"
	"runtime"
	"strings"
	"unicode/utf8"

	spg "go.1password.io/spg"

	"verifharness/gen"
	"verifharness/oracle"
)

// C08 — wordlist-recipe entropy is exact and depends on the recipe alone.

func c08Counts(tier string) (cases, per int) {
	if tier == "thorough" {
		return 8000, 40
	}
	return 200, 16
}

func init() {
	register(&Prop{
		ID:    "C08",
		Level: "exploration",
		Rule:  "seed-generated word-list inputs weighted towards lists holding a word together with its capitalised twin (with and without genuinely uncapitalisable neighbours), pre-capitalised-only and caseless-only lists, lists holding the empty string beside capitalisable words, x all five schemes x constant/preset/constructed/user-written separators x lengths 1-9. Each input is constructed 64 times in-process (same slice, permutations, repetitions), Entropy() is called repeatedly on each, and the same inputs are evaluated in 4 fresh child processes; all values for one (word set, recipe) must be bit-identical and equal the documented formula. evaluations = Entropy() calls; distinct_nontrivial = distinct (word set, recipe) pairs whose list contains a title-case twin or an uncapitalisable word",
		Assumptions: []string{
			"formula: L*log2(kept) + [every kept word changes under title-casing]*(L for random, log2 L for one) + (L-1)*sepEnt, kept words from the reference normalisation, sepEnt = the value the separator function itself declares (observed by calling it)",
			"tolerance for the formula: 4 float32 ulps of max(|E|,1) (three float32 operations in the published value); determinism is bit-exact",
		},
		MinEvals: 1000,
		NumCases: func(tier string, seed uint64) int { c, _ := c08Counts(tier); return c },
		RunCase:  c08Case,
	})
	if len(os.Args) > 1 && os.Args[1] == "c08probe" {
		c08Probe()
	}
}

type c08Input struct {
	W WLCase `json:"w"`
}

func c08Gen(r *gen.R) WLCase {
	w := genWLCase(r, wlOpts{minWords: 1, maxWords: 8, maxLen: 9, twins: true, uncap: true, noReqSep: true})
	switch r.Intn(6) {
	case 0: // the F2 shape: twins and otherwise capitalisable words only
		base := wlInput(r, 2, 6, false, false)
		w.Words = append(base, oracle.Title(base[0]))
		if r.Bool() {
			w.Words = append(w.Words, oracle.Title(base[1]))
		}
		w.Words = r.ShuffleStrings(w.Words)
	case 1: // pre-capitalised only
		w.Words = []string{"Polish", "March", "Turkey"}[:r.Range(1, 3)]
	case 2: // caseless only
		w.Words = []string{"123", "語", "7", "-"}[:r.Range(1, 4)]
	case 3: // twins plus a genuinely uncapitalisable neighbour
		w.Words = []string{"polish", "Polish", "apple", "123"}
	case 4: // several spellings sharing one capitalised twin, and exactly one uncapitalisable word
		w.Words = r.ShuffleStrings([]string{"x-ray", "X-ray", "X-Ray", "apple", "pear", []string{"42", "Paris", "語"}[r.Intn(3)]})
		if r.Bool() {
			w.Words = append(w.Words, "o'neil", "O'neil", "O'Neil")
		}
	}
	if r.Chance(1, 2) {
		w.Scheme = []string{"random", "one"}[r.Intn(2)]
	}
	if r.Chance(1, 24) { // thousands of words, one of them uncapitalisable, perhaps a twin pair
		w.Words = c10BigInput(r)
	}
	if r.Chance(1, 8) { // long passwords: the float32 arithmetic of the published value is still exact enough
		w.Length = []int{10, 16, 17, 32, 33, 64, 65, 100, 255, 256, 1000, 3000}[r.Intn(12)]
	}
	// constructed separators: keep them honourable (sfWrap swallows refusals)
	return w
}

// c08Eval constructs the list and returns the entropy bits of the recipe.
func c08Eval(w WLCase, words []string) (uint32, error) {
	w2 := w
	w2.Words = words
	b, err := w2.Build()
	if err != nil {
		return 0, err
	}
	return math.Float32bits(b.Rec.Entropy()), nil
}

func c08Probe() {
	var ins []WLCase
	if err := json.NewDecoder(os.Stdin).Decode(&ins); err != nil {
		fmt.Fprintln(os.Stderr, err)
		os.Exit(2)
	}
	out := make([]uint32, len(ins))
	null, _ := os.OpenFile(os.DevNull, os.O_WRONLY, 0)
	stdout := os.Stdout
	os.Stdout = null // the library prints a duplicate-word notice on stdout
	for i, w := range ins {
		w.restore()
		v, err := c08Eval(w, w.Words)
		if err != nil {
			v = 0xFFFFFFFF
		}
		out[i] = v
	}
	os.Stdout = stdout
	json.NewEncoder(os.Stdout).Encode(out)
	os.Exit(0)
}

// restore rebuilds the unexported separator recipe after JSON transport.
func (w *WLCase) restore() {
	if w.SepRec != nil {
		d := w.SepRec
		w.sepRec = spg.CharRecipe{Length: d.Length, Allow: spg.CTFlag(d.Allow), Require: spg.CTFlag(d.Require), Exclude: spg.CTFlag(d.Exclude),
			AllowChars: d.AllowChars, RequireSets: d.RequireSets, ExcludeChars: d.ExcludeChars}
	}
}

// c08BigList: a list of a couple of thousand words with exactly one uncapitalisable word, constructed many
// times under several processor counts: the answer to "does every word change under title-casing" must not
// depend on where that word ends up or on how the work is split.
func c08BigList(c *Ctx) {
	n := c.R.Range(2049, 2400)
	words := make([]string, 0, n+1)
	for i := 0; i < n; i++ {
		words = append(words, fmt.Sprintf("w%dx%c", i, 'a'+rune(i%26)))
	}
	words = append(words, "4")
	want := 4 * math.Log2(float64(len(words))) // scheme random gains nothing: "4" does not change
	reps := 400
	if c.Thorough() {
		reps = 4000
	}
	for rep := 0; rep < reps; rep++ {
		if rep%50 == 0 {
			runtime.GOMAXPROCS([]int{8, 3, 5, 2, 7, 16, 6, 4}[(rep/50)%8])
		}
		wl, err := spg.NewWordList(words)
		if err != nil {
			return
		}
		r := spg.NewWLRecipe(4, wl)
		r.Capitalize = spg.CSRandom
		got := float64(r.Entropy())
		c.Exec(1)
		if math.Abs(got-want) > 1e-3 {
			c.Violate("entropy-depends-on-construction", fmt.Sprintf("a list of %d words of which exactly one (\"4\") does not change under title-casing, scheme random, Length 4: construction %d (GOMAXPROCS %d) reports %v bits, the formula gives %.4f", len(words), rep, runtime.GOMAXPROCS(0), got, want), nil)
			return
		}
	}
	c.Count("big_list_constructions", int64(reps))
	c.Distinct("nontrivial", fmt.Sprint("biglist", n))
}

func c08Case(c *Ctx) {
	if c.Case%25 == 3 {
		c08BigList(c)
	}
	_, per := c08Counts(c.Tier)
	// two more inputs per case, derived from the first two after all generated ones have been examined (so those
	// are the same with and without them): the capitalisable words of that input plus the empty string, which
	// is a word that does not change under title-casing, with the two schemes that credit capitalisation
	gens := per
	per += 2
	ins := make([]WLCase, per)
	first := make([]uint32, per)
	okIn := make([]bool, per)
	for k := 0; k < per; k++ {
		var w WLCase
		if k < gens {
			w = c08Gen(c.R)
		} else {
			w = ins[k-gens]
			words := []string{""}
			for _, x := range w.Words {
				if utf8.ValidString(x) && oracle.Title(x) != x {
					words = append(words, x)
				}
			}
			if len(words) < 2 {
				words = append(words, "apple", "cherry", "damson")
			}
			w.Words = words
			w.Scheme = []string{"random", "one"}[k-gens]
			c.Count("lists_with_empty_word", 1)
		}
		ins[k] = w
		kept := oracle.Normalize(w.Words)
		b, err := w.Build()
		if err != nil {
			continue
		}
		// declared separator entropy, observed
		sepEnt := float64(0)
		if b.Rec.SeparatorFunc != nil {
			_, e := b.Rec.SeparatorFunc()
			sepEnt = float64(e)
		}
		L := float64(w.Length)
		want := L * math.Log2(float64(len(kept)))
		if oracle.AllCapitalizable(kept) {
			switch w.Scheme {
			case "random":
				want += L
			case "one":
				want += math.Log2(L)
			}
		}
		want += (L - 1) * sepEnt
		key := fmt.Sprintf("%q|%d|%s|%s|%s|%v|%v", kept, w.Length, w.Scheme, w.SepKind, w.SepChar+w.Preset, w.SepRec, w.UserSeps)
		twin := len(kept) < len(distinctOf(w.Words))
		if twin || !oracle.AllCapitalizable(kept) {
			c.Distinct("nontrivial", key)
		}
		det := map[string]interface{}{"recipe": w.String(), "kept_words": len(kept), "all_capitalisable": oracle.AllCapitalizable(kept), "formula_value": fmt.Sprint(want)}
		values := map[uint32]int{}
		var order []uint32
		record := func(v uint32) {
			if values[v] == 0 {
				order = append(order, v)
			}
			values[v]++
		}
		nrep := 64
		if len(w.Words) > 1000 {
			nrep = 12
		}
		for rep := 0; rep < nrep; rep++ {
			words := w.Words
			switch {
			case rep >= 44:
				words = c.R.ShuffleStrings(w.Words)
			case rep >= 24:
				words = c.R.ShuffleStrings(append(append([]string(nil), w.Words...), w.Words[c.R.Intn(len(w.Words))]))
			}
			v, err := c08Eval(w, words)
			c.Exec(1)
			if err != nil {
				c.Violate("list-refused", fmt.Sprintf("NewWordList(%q): %v", words, err), det)
				break
			}
			record(v)
			if rep == 0 {
				first[k] = v
				okIn[k] = true
				// repeated calls on one list
				for i := 0; i < 5; i++ {
					record(math.Float32bits(b.Rec.Entropy()))
					c.Exec(1)
				}
			}
		}
		if len(order) > 1 {
			parts := []string{}
			for _, v := range order {
				parts = append(parts, fmt.Sprintf("%v bits x%d", math.Float32frombits(v), values[v]))
			}
			class := "entropy-depends-on-construction"
			if twin {
				class = "entropy-depends-on-construction-twin-list"
			}
			det["values"] = parts
			c.Violate(class, fmt.Sprintf("recipe %s: Entropy() over repeated constructions / permutations of the same words gave %s", w.String(), strings.Join(parts, ", ")), det)
			okIn[k] = false
			continue
		}
		if len(order) == 1 {
			got := float64(math.Float32frombits(order[0]))
			tol := 4 * oracle.Ulp32(math.Max(math.Abs(want), 1))
			if math.IsNaN(got) || math.Abs(got-want) > tol {
				class := "entropy-formula"
				if twin {
					class = "entropy-formula-twin-list"
				}
				c.Violate(class, fmt.Sprintf("recipe %s: Entropy()=%v, documented formula gives %.6f (kept %d words, all capitalisable %v, separator entropy %v)", w.String(), got, want, len(kept), oracle.AllCapitalizable(kept), sepEnt), det)
				okIn[k] = false
				continue
			}
			c.Count("recipes_formula_ok", 1)
		}
		if k == 0 && c.Case < 4 {
			det["entropy"] = fmt.Sprint(math.Float32frombits(first[k]))
			c.Sample(det)
		}
		// recipes that share one *WordList and differ in separator function / length / scheme, evaluated in
		// both orders: each must still report its own formula value (nothing remembered on the list)
		if okIn[k] {
			type variant struct {
				name   string
				sf     spg.SFFunction
				sepEnt float64
				L      int
				scheme string
			}
			vs := []variant{
				{"SFDigits1", spg.SFDigits1, math.Log2(10), w.Length, w.Scheme},
				{"SFDigits2", spg.SFDigits2, 2 * math.Log2(10), w.Length, w.Scheme},
				{"SFSymbols", spg.SFSymbols, math.Log2(6), w.Length, w.Scheme},
				{"SFNone", spg.SFNone, 0, w.Length, w.Scheme},
				{"SFDigits1/other scheme", spg.SFDigits1, math.Log2(10), w.Length, schemes[(c.R.Intn(4)+1+indexOf(schemes, w.Scheme))%5]},
				{"no separator function", nil, 0, w.Length + 1, w.Scheme},
			}
			for order := 0; order < 2; order++ {
				wl, err := spg.NewWordList(w.Words)
				if err != nil {
					break
				}
				if order == 1 {
					// an excursion of the retry knobs during which every separator recipe is refused, then the
					// defaults again: nothing may be remembered (the presets are shared package-level values)
					func() {
						defer knobs(0, 1e-9)()
						for _, v := range vs {
							if v.sf != nil {
								rec := spg.NewWLRecipe(v.L, wl)
								rec.SeparatorFunc = v.sf
								rec.Entropy()
								runGen(rec, nil)
							}
						}
						c.Count("knob_excursions", 1)
					}()
				}
				idx := c.R.Perm(len(vs))
				for _, vi := range idx {
					v := vs[vi]
					rec := spg.NewWLRecipe(v.L, wl)
					rec.Capitalize = spg.CapScheme(v.scheme)
					rec.SeparatorFunc = v.sf
					got := float64(rec.Entropy())
					c.Exec(1)
					c.Count("shared_list_evaluations", 1)
					L := float64(v.L)
					wantV := L * math.Log2(float64(len(kept)))
					if oracle.AllCapitalizable(kept) {
						switch v.scheme {
						case "random":
							wantV += L
						case "one":
							wantV += math.Log2(L)
						}
					}
					wantV += (L - 1) * v.sepEnt
					tol := 4*oracle.Ulp32(math.Max(math.Abs(wantV), 1)) + 1e-5
					if math.IsNaN(got) || math.Abs(got-wantV) > tol {
						c.Violate("entropy-depends-on-other-recipes-of-the-list", fmt.Sprintf("words %q: recipe (Length %d, %s, %s) sharing its *WordList with other recipes reports %v, formula gives %.6f", w.Words, v.L, v.scheme, v.name, got, wantV),
							map[string]interface{}{"words": w.Words, "length": v.L, "scheme": v.scheme, "separator": v.name, "evaluation_order": idx})
						okIn[k] = false
						break
					}
				}
			}
		}
	}
	// the same inputs in 4 fresh processes
	self, err := os.Executable()
	if err != nil {
		c.Inconclusive("cannot find own executable")
		return
	}
	payload, _ := json.Marshal(ins)
	for proc := 0; proc < 4; proc++ {
		cmd := exec.Command(self, "c08probe")
		cmd.Stdin = strings.NewReader(string(payload))
		outb, err := cmd.Output()
		if err != nil {
			c.Inconclusive(fmt.Sprintf("child process failed: %v", err))
			return
		}
		var vals []uint32
		if json.Unmarshal(outb, &vals) != nil || len(vals) != len(ins) {
			c.Inconclusive("child process output unreadable")
			return
		}
		c.Count("fresh_process_evaluations", int64(len(vals)))
		c.Exec(len(vals))
		for k := range ins {
			if !utf8.ValidString(strings.Join(ins[k].Words, "")) {
				continue // the JSON transport to the child cannot carry these words
			}
			if okIn[k] && vals[k] != first[k] {
				c.Violate("entropy-differs-between-processes", fmt.Sprintf("recipe %s: Entropy()=%v in this process, %v in a fresh process", ins[k].String(), math.Float32frombits(first[k]), math.Float32frombits(vals[k])),
					map[string]interface{}{"recipe": ins[k].String()})
				okIn[k] = false
			}
		}
	}
}

func indexOf(ss []string, v string) int {
	for i, s := range ss {
		if s == v {
			return i
		}
	}
	return 0
}

func distinctOf(ss []string) map[string]bool {
	m := map[string]bool{}
	for _, s := range ss {
		m[s] = true
	}
	return m
}
