package main

import (
	"fmt"
	"math/big"
	"strings"

	spg "go.1password.io/spg"

	"verifharness/explore"
	"verifharness/gen"
	"verifharness/oracle"
	"verifharness/tape"
)

// C02 — character passwords are uniform over exactly the strings the recipe allows.
//
// Monitor: execution-tree explorer (exact mass of every output of the real
// Generate) against the brute-force reference set of valid strings; plus
// slices through realistic recipes (every alphabet index forced at every
// position). Decided modulo C01 (each bounded draw uniform).

var c02Panel = []struct {
	rec    spg.CharRecipe
	trials int // 0 = default knobs
}{
	{spg.CharRecipe{Length: 2, Allow: spg.Digits, AllowChars: "0077"}, 0},
	{spg.CharRecipe{Length: 2, AllowChars: "b", RequireSets: []string{"a"}}, 0},
	{spg.CharRecipe{Length: 2, AllowChars: "b", RequireSets: []string{"a"}}, 2},
	{spg.CharRecipe{Length: 3, AllowChars: "abcab", RequireSets: []string{"ab", "bc"}}, 2},
	{spg.CharRecipe{Length: 3, AllowChars: "xyz", RequireSets: []string{"a", "b"}}, 3},
	{spg.CharRecipe{Length: 2, Allow: spg.Symbols, AllowChars: "!!@", Require: spg.Symbols}, 1},
	{spg.CharRecipe{Length: 3, AllowChars: "é語🙂a", ExcludeChars: "a"}, 0},
	{spg.CharRecipe{Length: 1, AllowChars: "aaaa"}, 0},
	{spg.CharRecipe{Length: 4, AllowChars: "ab", RequireSets: []string{"a", "b"}}, 1},
	{spg.CharRecipe{Length: 3, Allow: spg.Digits, Exclude: spg.Ambiguous, ExcludeChars: "2346", RequireSets: []string{"78"}}, 2},
	{spg.CharRecipe{Length: 2, AllowChars: "abc", RequireSets: []string{"ab", "ab"}}, 2},
	{spg.CharRecipe{Length: 3, AllowChars: "abcd", RequireSets: []string{"abc", "a"}}, 3},
	{spg.CharRecipe{Length: 2, AllowChars: "ab\uFFFD"}, 0},
	{spg.CharRecipe{Length: 2, AllowChars: "a", RequireSets: []string{"x\uFFFD"}}, 2},
	{spg.CharRecipe{Length: 3, AllowChars: "b", RequireSets: []string{"aac"}}, 2},
	{spg.CharRecipe{Length: 3, Allow: spg.Digits, ExcludeChars: "06789", RequireSets: []string{"13355"}}, 2},
}

func c02Counts(tier string) (trees, slices int) {
	if tier == "thorough" {
		return 5000, 64
	}
	return 320, 16
}

type charTreeCase struct {
	Rec      spg.CharRecipe
	Trials   int // 0: default knobs
	FailRate float64
	Lim      explore.Limits
	// Siblings are recipes that differ from Rec only in how the same characters are grouped into fields
	// (required sets merged, split or joined, a character moved between allow and exclude). They are
	// used in the same process BEFORE Rec is examined: state keyed on a lossy rendering of the fields
	// (a memo, a cache) then answers for the wrong recipe.
	Siblings []spg.CharRecipe
}

// snapChar renders every public field of a recipe, RequireSets with its capacity tail.
func snapChar(r spg.CharRecipe) string {
	full := r.RequireSets
	if full != nil {
		full = full[:cap(full)]
	}
	return fmt.Sprintf("%d|%d|%d|%d|%q|%q|%q|len=%d", r.Length, r.Allow, r.Require, r.Exclude, r.AllowChars, r.ExcludeChars, full, len(r.RequireSets))
}

// frame snapshots the recipe and its siblings; check compares later and reports what a call changed.
func (tc charTreeCase) frame() []string {
	out := []string{snapChar(tc.Rec)}
	for _, s := range tc.Siblings {
		out = append(out, snapChar(s))
	}
	return out
}

func (tc charTreeCase) frameChanged(before []string) string {
	after := tc.frame()
	for i := range before {
		if before[i] != after[i] {
			return fmt.Sprintf("library calls changed the public fields / caller-owned RequireSets array of a recipe: before %s after %s", before[i], after[i])
		}
	}
	return ""
}

// preCalls uses the siblings the way an application holding several policies would.
func (tc charTreeCase) preCalls() {
	for i := range tc.Siblings {
		sib := &tc.Siblings[i]
		func() {
			defer func() { recover() }()
			sib.Entropy()
			sib.Alphabet()
			sib.SuccessProbability()
			runGen(sib, nil)
		}()
	}
}

// shareArrays rebuilds the RequireSets of rec so that it has spare capacity, and adds two siblings that
// share its backing array: one with one more set (a longer prefix of the same policy table), one with the
// very same slice but a custom exclusion overlapping a required set.
func shareArrays(rec *spg.CharRecipe, sibs []spg.CharRecipe) []spg.CharRecipe {
	k := len(rec.RequireSets)
	if k == 0 {
		return sibs
	}
	table := make([]string, k+1, k+3)
	copy(table, rec.RequireSets)
	table[k] = "XYZ"
	rec.RequireSets = table[:k]
	longer := *rec
	longer.RequireSets = table[:k+1]
	longer.AllowChars += "q"
	same := *rec
	same.ExcludeChars += firstChar(rec.RequireSets[0])
	same.AllowChars += "w"
	flagged := *rec // the very same slice next to class flags: whatever the library adds for the classes must not land in the table
	flagged.Require |= spg.Digits | spg.Symbols
	flagged.Allow |= spg.Lowers
	flagged.Length += 2
	return append(sibs, longer, same, flagged)
}

// siblingsOf builds field-regrouped variants of rec.
func siblingsOf(r *gen.R, rec spg.CharRecipe) []spg.CharRecipe {
	var out []spg.CharRecipe
	clone := func() spg.CharRecipe {
		c := rec
		c.RequireSets = append([]string(nil), rec.RequireSets...)
		return c
	}
	if len(rec.RequireSets) >= 2 {
		a := clone()
		a.RequireSets = []string{strings.Join(rec.RequireSets, "")} // merged into one set
		b := clone()
		b.RequireSets = []string{strings.Join(rec.RequireSets, " ")} // joined with a space
		c := clone()
		c.RequireSets = []string{rec.RequireSets[0] + rec.RequireSets[1][:0]}
		c.RequireSets = append([]string{rec.RequireSets[0] + firstChar(rec.RequireSets[1])}, restChars(rec.RequireSets[1]))
		c.RequireSets = append(c.RequireSets, rec.RequireSets[2:]...)
		out = append(out, a, b, c)
	}
	if len(rec.RequireSets) == 1 && len(oracle.Chars(rec.RequireSets[0])) >= 2 {
		a := clone()
		a.RequireSets = oracle.Chars(rec.RequireSets[0]) // split into singletons
		out = append(out, a)
	}
	if cs := oracle.Chars(rec.AllowChars); len(cs) >= 2 {
		a := clone() // last allowed character moved to the exclusion string
		a.AllowChars = strings.Join(cs[:len(cs)-1], "")
		a.ExcludeChars = cs[len(cs)-1] + rec.ExcludeChars
		b := clone() // same characters, other order and a duplicate
		b.AllowChars = cs[len(cs)-1] + rec.AllowChars
		out = append(out, a, b)
	}
	if rec.Length > 1 {
		a := clone()
		a.Length = rec.Length - 1
		out = append(out, a)
	}
	if len(out) > 3 {
		p := r.Perm(len(out))
		out = []spg.CharRecipe{out[p[0]], out[p[1]], out[p[2]]}
	}
	// the sets (and the custom strings) run together with the delimiters a flattened description of a recipe
	// would use: two recipes that read the same once flattened are still two recipes
	if len(rec.RequireSets) >= 2 {
		p := r.Perm(len(siblingDelims))
		for _, k := range p[:3] {
			a := clone()
			a.RequireSets = []string{strings.Join(rec.RequireSets, siblingDelims[k])}
			out = append(out, a)
		}
	}
	if len(rec.RequireSets) >= 1 && (rec.AllowChars != "" || rec.ExcludeChars != "") {
		d := siblingDelims[r.Intn(len(siblingDelims))]
		a := clone() // the first set moved to the end of the exclusion string, behind a delimiter
		a.ExcludeChars = rec.ExcludeChars + d + rec.RequireSets[0]
		a.RequireSets = a.RequireSets[1:]
		b := clone() // the exclusion string moved to the end of the allowed string
		b.AllowChars = rec.AllowChars + d + rec.ExcludeChars
		b.ExcludeChars = ""
		out = append(out, a, b)
	}
	return out
}

var siblingDelims = []string{"|", ",", ";", ":", "/", "\x00", "\n", "\x1f", "+", "\t"}

func firstChar(s string) string {
	cs := oracle.Chars(s)
	if len(cs) == 0 {
		return ""
	}
	return cs[0]
}

func restChars(s string) string {
	cs := oracle.Chars(s)
	if len(cs) <= 1 {
		return s
	}
	return strings.Join(cs[1:], "")
}

// charTreeCaseFor is shared by C02, C03, C06: the same deterministic list of
// small recipes with their knob settings and exploration limits.
func charTreeCaseFor(tier string, seed uint64, i int) charTreeCase {
	thorough := tier == "thorough"
	if i < len(c02Panel) {
		p := c02Panel[i]
		c := charTreeCase{Rec: p.rec, Trials: p.trials, FailRate: 1, Lim: explore.Limits{MaxLeaves: 20000, MaxDraws: 40}}
		if p.trials == 0 {
			c.Lim.MaxDraws = 0 // resolve completely if the budget allows
			if nReqSets(p.rec) > 0 {
				c.Lim.MaxDraws = 6 * p.rec.Length
			}
		}
		return c
	}
	r := gen.New(seed, "chartree", i)
	maxA, maxL, budget := 6, 4, 20000
	if thorough {
		maxA, maxL, budget = 10, 6, 250000
	}
	rec := smallCharRecipe(r, maxA, maxL, 3)
	c := charTreeCase{Rec: rec, FailRate: 1, Lim: explore.Limits{MaxLeaves: budget}}
	sem := oracle.CharSemOf(rec)
	// keep the candidate space enumerable
	for pow(len(sem.Alphabet), rec.Length) > int64(budget) && rec.Length > 1 {
		rec.Length--
		sem.Length--
	}
	c.Rec = rec
	if nReqSets(rec) > 0 {
		switch r.Intn(4) {
		case 0:
			c.Trials = 0
			c.Lim.MaxDraws = r.Range(2, 6) * rec.Length
		default:
			c.Trials = r.Range(1, 3)
			// (a^L)^trials leaves: shrink
			for pow(len(sem.Alphabet), rec.Length*c.Trials) > int64(budget) && c.Trials > 1 {
				c.Trials--
			}
		}
	}
	if i%2 == 0 {
		c.Siblings = siblingsOf(r, c.Rec)
		if i%4 == 0 {
			c.Siblings = shareArrays(&c.Rec, c.Siblings)
		}
	}
	return c
}

func pow(a, b int) int64 {
	r := int64(1)
	for i := 0; i < b; i++ {
		r *= int64(a)
		if r > 1<<40 {
			return r
		}
	}
	return r
}

func init() {
	register(&Prop{
		ID:    "C02",
		Level: "exploration",
		Rule:  "cases: fixed panel + VERIF_SEED-generated small character recipes (alphabet<=6/10, length<=4/6, 0-3 required sets in overlap patterns, class+custom duplicates, multi-byte), each explored over its complete decision tree of draw indices through the real Generate (exact big.Rat mass per output), plus slices through realistic recipes forcing every alphabet index at every position. evaluations = executions of Generate; a recipe is non-trivial and distinct when its (fields, knobs) differ and it produced at least 2 distinct outputs",
		Assumptions: []string{
			"each bounded draw is uniform over [0,n) given a uniform raw word (decided separately by C01); masses are products of 1/n along the observed draw path",
			"verif hook sorts the alphabet the production code built (in place) so that a draw index selects the same character on every call",
			"recipes whose candidate space exceeds the node budget are covered by slices only",
		},
		MinEvals: 1000,
		NumCases: func(tier string, seed uint64) int {
			t, s := c02Counts(tier)
			return len(c02Panel) + t + s
		},
		RunCase: c02Case,
	})
}

func c02Case(c *Ctx) {
	trees, _ := c02Counts(c.Tier)
	if c.Case >= len(c02Panel)+trees {
		c02Slice(c)
		return
	}
	tc := charTreeCaseFor(c.Tier, c.Seed, c.Case)
	c02Tree(c, tc, "")
}

// c02Tree explores one character recipe completely and compares output masses with the reference set
// of valid strings. prefix is put in front of the violation classes (C01 reuses this monitor).
func c02Tree(c *Ctx, tc charTreeCase, prefix string) {
	rec := tc.Rec
	sem := oracle.CharSemOf(rec)
	if tc.Trials > 0 {
		defer knobs(tc.Trials, tc.FailRate)()
	}
	fr := tc.frame()
	tc.preCalls()
	c.Count("sibling_recipes_used_first", int64(len(tc.Siblings)))
	res := exploreGen(rec, tc.Lim, nil)
	c.Exec(res.Leaves + res.Cuts)
	if msg := tc.frameChanged(fr); msg != "" {
		c.Violate(prefix+"call-modified-recipe-fields", msg, map[string]interface{}{"recipe": descChar(rec)})
		return
	}
	c.Count("tree_leaves", int64(res.Leaves))
	c.Count("tree_cuts", int64(res.Cuts))
	c.Count("draws", res.Draws)
	c.Max("max_depth", int64(res.MaxDepth))
	desc := map[string]interface{}{"recipe": descChar(rec), "max_trials": tc.Trials, "leaves": res.Leaves, "unresolved": ratString(res.Unresolved)}
	if len(res.Anomalies) > 0 {
		c.Inconclusive("tape anomaly while exploring " + descChar(rec).String() + ": " + res.Anomalies[0])
		return
	}
	valid, ok := sem.EnumerateValid(2_000_000)
	if !ok {
		c.Note("valid set too large to enumerate: " + descChar(rec).String())
		return
	}
	V := map[string]bool{}
	for _, s := range valid {
		V[s] = true
	}
	// mass per output string
	mass := map[string]*big.Rat{}
	npw := 0
	errMass := new(big.Rat)
	for key, m := range res.Mass {
		switch {
		case strings.HasPrefix(key, "PW:"):
			s := pwString(key)
			if mass[s] == nil {
				mass[s] = new(big.Rat)
				npw++
			}
			mass[s].Add(mass[s], m)
		case key == "ERR":
			errMass.Add(errMass, m)
		}
	}
	desc["outputs"] = npw
	desc["valid_strings"] = len(valid)
	desc["error_mass"] = ratString(errMass)
	if npw == 0 {
		c.Count("recipes_refused_or_failing", 1)
		c.Sample(desc)
		return // refusal is C13's business
	}
	c.Count("recipes_judged", 1)
	if res.Complete {
		c.Count("trees_fully_resolved", 1)
	}
	if npw >= 2 {
		c.Distinct("nontrivial", fmt.Sprintf("%s|%d", descChar(rec), tc.Trials))
	}
	c.Count("outputs_observed", int64(npw))
	for s := range mass {
		if !V[s] {
			c.Violate(prefix+"output-outside-valid-set", fmt.Sprintf("recipe %s returned %q which the recipe does not allow", descChar(rec), s),
				map[string]interface{}{"recipe": descChar(rec), "output": s, "mass": ratString(mass[s])})
			return
		}
	}
	min, max := (*big.Rat)(nil), new(big.Rat)
	var minS, maxS string
	zero := new(big.Rat)
	for _, s := range valid {
		m := mass[s]
		if m == nil {
			m = zero
		}
		if min == nil || m.Cmp(min) < 0 {
			min, minS = m, s
		}
		if m.Cmp(max) > 0 {
			max, maxS = m, s
		}
	}
	bound := new(big.Rat).Add(min, res.Unresolved)
	if max.Cmp(bound) > 0 {
		class := "non-uniform"
		if min.Sign() == 0 && res.Complete {
			class = "valid-string-unreachable"
		}
		c.Violate(prefix+class, fmt.Sprintf("recipe %s: P(%q)=%s but P(%q)<=%s (unresolved mass %s, %d leaves)", descChar(rec), maxS, ratString(max), minS, ratString(bound), ratString(res.Unresolved), res.Leaves),
			map[string]interface{}{"recipe": descChar(rec), "max_trials": tc.Trials, "likelier": maxS, "likelier_mass": ratString(max), "rarer": minS, "rarer_mass_upper_bound": ratString(bound)})
		return
	}
	desc["mass_each"] = ratString(max)
	c.Sample(desc)
}

// c02Slice forces every alphabet index at every position of a realistic recipe.
func c02Slice(c *Ctx) {
	trees, _ := c02Counts(c.Tier)
	k := c.Case - len(c02Panel) - trees
	var rec spg.CharRecipe
	if k%16 == 15 { // lengths beyond 2^12 and 2^16: no slices, a few generations whose strings must have the length asked for
		L := []int{4097, 65537, 5000, 70001}[(k/16)%4]
		rec = spg.CharRecipe{Length: L, Allow: spg.Digits | spg.Symbols}
		sem := oracle.CharSemOf(rec)
		for run := 0; run < 3; run++ {
			var t *tape.Tape
			if run > 0 {
				script := make([]uint32, L)
				for i := range script {
					script[i] = c.R.U32()
				}
				script[L-1] = tape.Last
				t = &tape.Tape{Script: script}
			}
			g := runGen(rec, t)
			c.Exec(1)
			c.Count("very_long_passwords", 1)
			if g.Pw == nil {
				c.Violate("generation-failed", fmt.Sprintf("recipe %s: err=%v panic=%v", descChar(rec), g.Err, g.Panic), nil)
				return
			}
			if cl, msg := checkCharPassword(sem, g.Pw); cl != "" {
				c.Violate("output-outside-valid-set", fmt.Sprintf("recipe %s: %s (%s)", descChar(rec), msg, cl), map[string]interface{}{"recipe": descChar(rec)})
				return
			}
		}
		c.Distinct("nontrivial", fmt.Sprintf("long|%d", L))
		return
	}
	switch k % 10 {
	case 8: // an alphabet larger than a byte can index
		cs := ""
		for r := rune(0x4e00); r < 0x4e00+300; r++ {
			cs += string(r)
		}
		rec = spg.CharRecipe{Length: 3, AllowChars: cs, Allow: spg.Digits}
	case 9: // a long password
		rec = spg.CharRecipe{Length: 300, Allow: spg.Digits | spg.Symbols}
	case 0:
		rec = *spg.NewCharRecipe(20)
	case 1:
		rec = spg.CharRecipe{Length: 6, Allow: spg.Digits}
	case 2:
		rec = spg.CharRecipe{Length: 5, AllowChars: "🙂🚀𝒳𝔘語éa"}
	case 3:
		rec = spg.CharRecipe{Length: 12, Allow: spg.All}
	case 4:
		rec = spg.CharRecipe{Length: 8, Allow: spg.Letters, Require: spg.Digits}
	case 5:
		rec = spg.CharRecipe{Length: 10, Allow: spg.All, Exclude: spg.Ambiguous, Require: spg.Symbols | spg.Digits}
	case 6:
		rec = spg.CharRecipe{Length: 7, Allow: spg.Lowers, AllowChars: "aabbcc", ExcludeChars: "xyz"}
	default:
		rec = anyCharRecipe(c.R, 12)
		rec.Require, rec.RequireSets = 0, nil
	}
	sem := oracle.CharSemOf(rec)
	a := len(sem.Alphabet)
	if a == 0 {
		c.Note("slice recipe has an empty alphabet: " + descChar(rec).String())
		return
	}
	L := rec.Length
	// base script whose other positions already satisfy every requirement
	base := make([]uint32, L)
	step := 1
	if L > 40 {
		step = 7 // long passwords: every 7th position and the last one
	}
	for pos := 0; pos < L; pos += step {
		if step > 1 && pos+step >= L {
			pos = L - 1
		}
		baseOK := len(sem.ReqLive) == 0
		for try := 0; ; try++ {
			for i := range base {
				base[i] = uint32(c.R.Intn(a))
			}
			if baseOK || L == 1 || try > 500 {
				break
			}
			chars := []string{}
			for i := range base {
				if i != pos {
					chars = append(chars, sem.Alphabet[base[i]])
				}
			}
			if sem.MeetsReq(chars) {
				baseOK = true
				break
			}
		}
		if !baseOK {
			c.Count("slice_positions_skipped", 1)
			continue
		}
		outs := map[string]bool{}
		var first []string
		for j := 0; j < a; j++ {
			script := append([]uint32(nil), base...)
			script[pos] = uint32(j)
			if j == a-1 {
				script[pos] = tape.Last
			}
			t := &tape.Tape{Script: script}
			if c.R.Chance(1, 3) {
				t.RejectAt = map[int]bool{c.R.Range(1, L): true}
			}
			g := runGen(rec, t)
			c.Exec(1)
			if g.Pw == nil {
				if L > 1 && len(sem.ReqLive) > 0 && g.Panic != nil && g.SourcePanic() {
					// the candidate missed a requirement after all and the script ran out: not a C02 matter
					c.Count("slice_retries_cut", 1)
					continue
				}
				c.Note(fmt.Sprintf("slice generation gave no password for %s: err=%v panic=%v", descChar(rec), g.Err, g.Panic))
				continue
			}
			s := g.Pw.String()
			chars := oracle.Chars(s)
			if !sem.Valid(chars) {
				c.Violate("output-outside-valid-set", fmt.Sprintf("recipe %s returned %q on script %v", descChar(rec), s, script),
					map[string]interface{}{"recipe": descChar(rec), "script": script, "output": s})
				return
			}
			outs[s] = true
			if first == nil {
				first = chars
			}
		}
		c.Count("slices", 1)
		// the a scripts differ in one draw only: they must give a distinct strings whose
		// differing position ranges over the whole alphabet
		{
			if len(outs) != a {
				c.Violate("slice-not-bijective", fmt.Sprintf("recipe %s: varying draw %d over all %d alphabet indices gave %d distinct passwords", descChar(rec), pos, a, len(outs)),
					map[string]interface{}{"recipe": descChar(rec), "base": base, "free_draw": pos, "distinct": len(outs), "alphabet": a})
				return
			}
			seen := map[string]bool{}
			diffPos := -1
			for s := range outs {
				ch := oracle.Chars(s)
				for i := range ch {
					if ch[i] != first[i] {
						if diffPos == -1 {
							diffPos = i
						} else if diffPos != i {
							c.Violate("slice-not-independent", fmt.Sprintf("recipe %s: varying one draw changed more than one position", descChar(rec)),
								map[string]interface{}{"recipe": descChar(rec), "base": base, "free_draw": pos})
							return
						}
					}
				}
			}
			if diffPos >= 0 {
				for s := range outs {
					seen[oracle.Chars(s)[diffPos]] = true
				}
				if len(seen) != a {
					c.Violate("slice-misses-character", fmt.Sprintf("recipe %s: free position covered %d of %d alphabet characters", descChar(rec), len(seen), a), nil)
					return
				}
			}
		}
	}
	c.Distinct("nontrivial", "slice|"+descChar(rec).String())
	c.Sample(map[string]interface{}{"slice_recipe": descChar(rec), "alphabet": a, "positions": L})
}
