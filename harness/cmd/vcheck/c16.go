package main

import (
	"fmt"
	"math"
	"math/big"
	"os"
	"sort"
	"strings"

	spg "go.1password.io/spg"

	"verifharness/explore"
	"verifharness/oracle"
	"verifharness/tape"
)

// C16 — built-in classes, defaults, separator presets, shipped lists are as documented.
// A finite configuration space, observed completely.

func init() {
	register(&Prop{
		ID:    "C16",
		Level: "exploration",
		Rule:  "complete enumeration of the configuration space: Alphabet() for every exported class flag and named union and for all 32 flag subsets; constructor defaults of NewCharRecipe/NewWLRecipe (fields and behaviour); MaxTrials/MaxFailRate at process start and as behaviour (refusal border 0.0984 for requirements given as custom sets, as class flags and as both; exactly k failing candidates then a valid one for k in {1,2,198,199,200,201}; a failing first candidate for lengths 2..1000); the exact output distribution and declared entropy of each of the 7 separator presets (explorer over every draw); every entry of AgileWords/AgileSyllables against the lines of testdata/*.txt read at run time. evaluations = library calls observed; distinct_nontrivial = distinct configuration items checked (flag sets, presets, defaults, list entries counted per list as one item each plus per-entry comparisons in the counters)",
		Assumptions: []string{
			"documented class strings written out independently in harness/oracle",
			"preset distributions are exact modulo C01 (each bounded draw uniform)",
		},
		MinEvals:   100,
		NumCases:   func(tier string, seed uint64) int { return 6 },
		RunCase:    c16Case,
		Exhaustive: true,
	})
}

func alphabetOf(r spg.CharRecipe) string { return r.Alphabet() }

func sortedChars(s string) string {
	cs := oracle.Chars(s)
	sort.Strings(cs)
	out := []string{}
	for i, ch := range cs {
		if i == 0 || ch != cs[i-1] {
			out = append(out, ch)
		}
	}
	return strings.Join(out, "")
}

func c16Case(c *Ctx) {
	switch c.Case {
	case 0: // class flags and named unions
		named := []struct {
			name string
			f    spg.CTFlag
			want string
		}{
			{"Uppers", spg.Uppers, "ABCDEFGHIJKLMNOPQRSTUVWXYZ"},
			{"Lowers", spg.Lowers, "abcdefghijklmnopqrstuvwxyz"},
			{"Digits", spg.Digits, "0123456789"},
			{"Symbols", spg.Symbols, "!@.-_*"},
			{"Ambiguous", spg.Ambiguous, "0O1Il5S"},
			{"None", spg.None, ""},
			{"Letters", spg.Letters, "ABCDEFGHIJKLMNOPQRSTUVWXYZabcdefghijklmnopqrstuvwxyz"},
			{"All", spg.All, "ABCDEFGHIJKLMNOPQRSTUVWXYZabcdefghijklmnopqrstuvwxyz0123456789!@.-_*"},
		}
		for _, n := range named {
			got := alphabetOf(spg.CharRecipe{Length: 1, Allow: n.f})
			c.Exec(1)
			c.Distinct("nontrivial", "flag:"+n.name)
			if got != sortedChars(n.want) {
				c.Violate("class-"+n.name, fmt.Sprintf("Allow: %s gives alphabet %q, documented %q", n.name, got, sortedChars(n.want)), map[string]interface{}{"flag": n.name, "got": got})
			}
			// the same class as a requirement and as an exclusion
			gotR := alphabetOf(spg.CharRecipe{Length: 1, Require: n.f})
			if gotR != sortedChars(n.want) {
				c.Violate("class-"+n.name, fmt.Sprintf("Require: %s gives alphabet %q, documented %q", n.name, gotR, sortedChars(n.want)), nil)
			}
			gotX := alphabetOf(spg.CharRecipe{Length: 1, Allow: spg.All | spg.Ambiguous, Exclude: n.f})
			wantX := ""
			for _, ch := range oracle.Chars(sortedChars(oracle.Upper + oracle.Lower + oracle.Digit + oracle.Symbol + oracle.Ambiguous)) {
				if !strings.Contains(n.want, ch) {
					wantX += ch
				}
			}
			if gotX != wantX {
				c.Violate("class-"+n.name, fmt.Sprintf("Exclude: %s leaves %q, documented %q", n.name, gotX, wantX), nil)
			}
			c.Exec(2)
		}
		if spg.Letters != spg.Uppers|spg.Lowers || spg.All != spg.Letters|spg.Digits|spg.Symbols || spg.None != 0 {
			c.Violate("named-union", "Letters/All/None are not the documented unions", nil)
		}
		parts := []string{oracle.Upper, oracle.Lower, oracle.Digit, oracle.Symbol, oracle.Ambiguous}
		flags := []spg.CTFlag{spg.Uppers, spg.Lowers, spg.Digits, spg.Symbols, spg.Ambiguous}
		for m := 0; m < 32; m++ {
			var f spg.CTFlag
			want := ""
			for b := 0; b < 5; b++ {
				if m&(1<<uint(b)) != 0 {
					f |= flags[b]
					want += parts[b]
				}
			}
			got := alphabetOf(spg.CharRecipe{Length: 1, Allow: f})
			c.Exec(1)
			c.Distinct("nontrivial", fmt.Sprint("subset:", m))
			if got != sortedChars(want) {
				c.Violate("flag-subset", fmt.Sprintf("flag subset %05b gives alphabet %q, union of its classes is %q", m, got, sortedChars(want)), nil)
			}
		}
		c.Sample(map[string]interface{}{"checked": "8 named flags x allow/require/exclude, 32 flag subsets", "All": alphabetOf(spg.CharRecipe{Length: 1, Allow: spg.All})})
	case 1: // constructor defaults, knobs, scheme constants
		for _, n := range []int{1, 20, 0, -3, 1000} {
			r := spg.NewCharRecipe(n)
			c.Exec(1)
			c.Distinct("nontrivial", fmt.Sprint("NewCharRecipe:", n))
			if r == nil || r.Length != n || r.Allow != spg.All || r.Exclude != spg.Ambiguous || r.Require != 0 || r.AllowChars != "" || r.ExcludeChars != "" || len(r.RequireSets) != 0 {
				c.Violate("newcharrecipe-defaults", fmt.Sprintf("NewCharRecipe(%d) = %+v, documented: everything allowed, ambiguous excluded, nothing else", n, r), nil)
				continue
			}
			want := ""
			for _, ch := range oracle.Chars(sortedChars(oracle.Upper + oracle.Lower + oracle.Digit + oracle.Symbol)) {
				if !strings.Contains(oracle.Ambiguous, ch) {
					want += ch
				}
			}
			if got := r.Alphabet(); got != want || len(oracle.Chars(got)) != 61 {
				c.Violate("newcharrecipe-defaults", fmt.Sprintf("NewCharRecipe(%d).Alphabet() = %q (%d characters), documented 68-7=61: %q", n, got, len(oracle.Chars(got)), want), nil)
			}
		}
		// two constructor calls with a modification in between: defaults must not be shared state
		r1 := spg.NewCharRecipe(8)
		r1.Allow, r1.Require, r1.Exclude, r1.AllowChars = spg.Digits, spg.Digits, spg.None, "xyz"
		r1.RequireSets = append(r1.RequireSets, "q")
		r2 := spg.NewCharRecipe(20)
		c.Distinct("nontrivial", "NewCharRecipe independence")
		if r1 == r2 || r2.Length != 20 || r2.Allow != spg.All || r2.Exclude != spg.Ambiguous || r2.Require != 0 || r2.AllowChars != "" || len(r2.RequireSets) != 0 || r1.Length != 8 {
			c.Violate("newcharrecipe-defaults", fmt.Sprintf("after modifying the recipe from NewCharRecipe(8), NewCharRecipe(20) returned %+v (same pointer: %v; first recipe now has Length %d)", *r2, r1 == r2, r1.Length), nil)
		}
		wl, _ := spg.NewWordList([]string{"alpha", "beta", "gamma"})
		w1 := spg.NewWLRecipe(3, wl)
		w1.Capitalize, w1.SeparatorChar, w1.SeparatorFunc = spg.CSAll, "+", spg.SFDigits2
		w2 := spg.NewWLRecipe(5, wl)
		c.Distinct("nontrivial", "NewWLRecipe independence")
		if w1 == w2 || w2.Length != 5 || w2.Capitalize != "none" || w2.SeparatorChar != "" || w2.SeparatorFunc != nil || w1.Length != 3 {
			c.Violate("newwlrecipe-defaults", fmt.Sprintf("after modifying the recipe from NewWLRecipe(3, wl), NewWLRecipe(5, wl) returned %+v", *w2), nil)
		}
		for _, n := range []int{1, 4, 0, -1} {
			r := spg.NewWLRecipe(n, wl)
			c.Exec(1)
			c.Distinct("nontrivial", fmt.Sprint("NewWLRecipe:", n))
			if r == nil || r.Length != n || r.Capitalize != "none" || r.SeparatorChar != "" || r.SeparatorFunc != nil || r.Size() != 3 {
				c.Violate("newwlrecipe-defaults", fmt.Sprintf("NewWLRecipe(%d, wl) = %+v, documented: no capitalisation, no separator", n, r), nil)
				continue
			}
			if n >= 1 {
				for i := 0; i < 20; i++ {
					g := runGen(*r, nil)
					c.Exec(1)
					if g.Pw == nil || len(g.Pw.Tokens().Separators()) != 0 || g.Pw.String() != strings.ToLower(g.Pw.String()) || len(g.Pw.Tokens().Atoms()) != n {
						c.Violate("newwlrecipe-defaults", fmt.Sprintf("NewWLRecipe(%d, wl).Generate() gave %v: expected %d lower-case words without separators", n, g.Pw, n), nil)
						break
					}
				}
			}
		}
		c.Distinct("nontrivial", "knobs")
		if spg.MaxTrials != 200 || spg.MaxFailRate != 1e-9 {
			c.Violate("retry-budget-defaults", fmt.Sprintf("MaxTrials=%d MaxFailRate=%g at process start, documented 200 and 1e-9", spg.MaxTrials, spg.MaxFailRate), nil)
		}
		// 200 attempts and 1e-9 mean: a single-attempt success chance of 0.0984 is the border
		for _, tc := range []struct {
			rec    spg.CharRecipe
			p      string
			accept bool
			script []uint32
		}{
			{spg.CharRecipe{Length: 1, AllowChars: "bcdefghi", RequireSets: []string{"a"}}, "1/9", true, nil},
			{spg.CharRecipe{Length: 1, AllowChars: "bcdefgh", RequireSets: []string{"a"}}, "1/8", true, nil},
			{spg.CharRecipe{Length: 1, AllowChars: "bcdefghijk", RequireSets: []string{"a"}}, "1/11", false, nil},
			{spg.CharRecipe{Length: 1, AllowChars: "bcdefghijklm", RequireSets: []string{"a"}}, "1/13", false, nil},
			// the same border with the requirement given as class flags, alone or next to custom sets
			{spg.CharRecipe{Length: 1, Allow: spg.Letters, Require: spg.Digits}, "10/62", true, nil},
			{spg.CharRecipe{Length: 1, Allow: spg.Letters, Require: spg.Symbols}, "6/58", true, nil},
			{spg.CharRecipe{Length: 1, Allow: spg.Uppers | spg.Digits, Require: spg.Symbols}, "6/42", true, nil},
			{spg.CharRecipe{Length: 1, Allow: spg.Letters | spg.Digits, Require: spg.Symbols}, "6/68", false, nil},
			{spg.CharRecipe{Length: 1, Allow: spg.Letters | spg.Digits, Require: spg.Symbols, ExcludeChars: "!"}, "5/67", false, nil},
			{spg.CharRecipe{Length: 1, Require: spg.Digits | spg.Symbols}, "0 (two classes, one character)", false, nil},
			{spg.CharRecipe{Length: 2, Require: spg.Digits | spg.Symbols, ExcludeChars: "!*-.@"}, "20/121 (candidate _0)", true, []uint32{tape.Last, 0}},
			{spg.CharRecipe{Length: 1, Allow: spg.Letters | spg.Digits, AllowChars: "-", RequireSets: []string{"-_"}}, "2/64", false, nil},
			{spg.CharRecipe{Length: 1, Allow: spg.Lowers, Require: spg.Digits, RequireSets: []string{"0123456789"}}, "10/36 (flag and set name the same class)", true, nil},
		} {
			script := tc.script
			if script == nil {
				script = []uint32{0}
			}
			g := runGen(tc.rec, &tape.Tape{Script: script, AutoExtend: true})
			c.Exec(1)
			c.Distinct("nontrivial", "threshold:"+tc.p)
			if tc.accept != (g.Err == nil && g.Panic == nil) {
				c.Violate("retry-budget-defaults", fmt.Sprintf("with the documented defaults (200 attempts, failure tolerance 1e-9) a recipe with single-attempt success %s must be %s; Generate gave err=%v", tc.p, map[bool]string{true: "served", false: "refused"}[tc.accept], g.Err), nil)
			}
		}
		// the budget itself: exactly 200 candidates are tried, no fewer and no more, whatever the length
		for _, form := range []spg.CharRecipe{
			{Length: 1, AllowChars: "b", RequireSets: []string{"a"}},
			{Length: 1, AllowChars: "ab", Require: spg.None, RequireSets: []string{"a", "a"}},
		} {
			for _, k := range []int{1, 2, 198, 199, 200, 201} {
				script := make([]uint32, k+1)
				for i := 0; i < k; i++ {
					script[i] = 1 // "b": the candidate misses the requirement
				}
				t := &tape.Tape{Script: script, AutoExtend: true, MaxDraws: 1000}
				g := runGen(form, t)
				c.Exec(1)
				c.Distinct("nontrivial", fmt.Sprintf("budget:%d-failures", k))
				switch {
				case k < 200 && (g.Pw == nil || g.Pw.String() != "a" || t.Draws != k+1):
					c.Violate("retry-budget-defaults", fmt.Sprintf("with the documented defaults, %d failed candidates followed by a valid one: Generate gave pw=%v err=%v after %d draws; the valid candidate of attempt %d is within the 200", k, g.Pw, g.Err, t.Draws, k+1), nil)
				case k >= 200 && (g.Pw != nil || g.Err == nil || t.Draws != 200):
					c.Violate("retry-budget-defaults", fmt.Sprintf("with the documented defaults, %d failed candidates in a row: Generate gave pw=%v err=%v after %d draws; the budget is 200 attempts", k, g.Pw, g.Err, t.Draws), nil)
				}
			}
		}
		for _, L := range []int{2, 7, 64, 198, 199, 200, 201, 250, 1000} {
			script := make([]uint32, L)
			for i := range script {
				script[i] = 1 // first candidate all "b"
			}
			t := &tape.Tape{Script: script, AutoExtend: true, MaxDraws: 300000}
			g := runGen(spg.CharRecipe{Length: L, AllowChars: "ab", RequireSets: []string{"a"}}, t)
			c.Exec(1)
			c.Distinct("nontrivial", fmt.Sprintf("budget:length-%d", L))
			if g.Pw == nil || t.Draws != 2*L {
				c.Violate("retry-budget-defaults", fmt.Sprintf("Length %d, first candidate invalid, second valid: Generate gave pw=%v err=%v after %d draws; a second attempt is within the budget", L, g.Pw != nil, g.Err, t.Draws), nil)
			}
		}
		if spg.CSNone != "none" || spg.CSFirst != "first" || spg.CSAll != "all" || spg.CSRandom != "random" || spg.CSOne != "one" {
			c.Violate("scheme-constants", "capitalisation scheme constants differ from the documented words", nil)
		}
		if spg.AtomType == spg.SeparatorType {
			c.Violate("token-types", "atom and separator token types coincide", nil)
		}
		c.Sample(map[string]interface{}{"checked": "NewCharRecipe/NewWLRecipe defaults, MaxTrials, MaxFailRate, scheme constants", "MaxTrials": spg.MaxTrials, "MaxFailRate": spg.MaxFailRate})
	case 2, 3: // presets: exact distribution
		names := presetNames[:4]
		if c.Case == 3 {
			names = presetNames[4:]
			// a caller lowered the retry knobs for a while and used the presets meanwhile; defaults restored:
			// the presets (shared package-level values) must be what their names say again
			func() {
				defer knobs(0, 1e-9)()
				for _, n := range presetNames {
					presetByName[n]()
				}
			}()
			func() {
				defer knobs(1, 1)()
				for _, n := range presetNames {
					presetByName[n]()
				}
			}()
			// a caller allows a single attempt and keeps the default tolerance: recipes without requirements
			// (every preset, the default character recipe) cannot fail, so nothing may change for them
			func() {
				defer knobs(1, 1e-9)()
				for _, n := range presetNames {
					for i := 0; i < 5; i++ {
						s, _ := presetByName[n]()
						c.Exec(1)
						if (s == "") != (n == "SFNone") {
							c.Violate("preset-"+n, fmt.Sprintf("with MaxTrials=1 and the default MaxFailRate the preset %s returned %q", n, s), nil)
							return
						}
					}
				}
				if g := runGen(*spg.NewCharRecipe(12), nil); g.Pw == nil {
					c.Violate("newcharrecipe-defaults", fmt.Sprintf("with MaxTrials=1 and the default MaxFailRate NewCharRecipe(12).Generate() gave err=%v panic=%v: a recipe without requirements cannot fail", g.Err, g.Panic), nil)
				}
			}()
			c.Count("knob_excursions", 3)
			// the presets are exported variables: a caller who repoints one of them (a house style for one
			// separator) has not asked for any other preset to change
			vars := map[string]*spg.SFFunction{"SFNone": &spg.SFNone, "SFDigits1": &spg.SFDigits1, "SFDigits2": &spg.SFDigits2,
				"SFDigitsNoAmbiguous1": &spg.SFDigitsNoAmbiguous1, "SFDigitsNoAmbiguous2": &spg.SFDigitsNoAmbiguous2,
				"SFSymbols": &spg.SFSymbols, "SFDigitsSymbols": &spg.SFDigitsSymbols}
			for _, changed := range presetNames {
				func() {
					saved := *vars[changed]
					defer func() { *vars[changed] = saved }()
					*vars[changed] = func() (string, spg.FloatE) { return "--", 0 }
					for _, other := range presetNames {
						if other == changed {
							continue
						}
						valid := map[string]bool{"": other == "SFNone"}
						want := 0.0
						if pr, ok := presetRecipe(other); ok {
							sem := oracle.CharSemOf(pr)
							all, _ := sem.EnumerateValid(100000)
							for _, v := range all {
								valid[v] = true
							}
							want = oracle.Log2Big(sem.Count(pr.Length))
						}
						for i := 0; i < 12; i++ {
							v, e := (*vars[other])()
							c.Exec(1)
							if !valid[v] || math.Abs(float64(e)-want) > 1e-4 {
								c.Violate("preset-"+other, fmt.Sprintf("after the caller assigned another function to spg.%s, spg.%s returned %q declaring %v bits; it is documented to yield one of %d values with %.4f bits", changed, other, v, e, len(valid)-btoi(other != "SFNone"), want), nil)
								return
							}
						}
					}
				}()
			}
			c.Count("preset_variable_reassignments", int64(len(presetNames)))
			// a caller-written separator function that panics (as the library itself does when the source
			// fails) inside Generate and inside Entropy; the caller recovers; then the presets are used
			func() {
				wl, _ := spg.NewWordList([]string{"uno", "dos", "tres"})
				r := spg.NewWLRecipe(3, wl)
				r.SeparatorFunc = spg.SFDigits1
				runGen(r, &tape.Tape{Script: []uint32{1, 2, 0}, AutoExtend: true, FaultAt: 6, FaultBytes: 1})
				runGen(r, &tape.Tape{Script: []uint32{1, 2, 0}, AutoExtend: true, FaultAt: 4, FaultBytes: 0})
				r.SeparatorFunc = func() (string, spg.FloatE) { panic("separator source failed") }
				func() { defer func() { recover() }(); r.Generate() }()
				func() { defer func() { recover() }(); r.Entropy() }()
				// nothing else is called before the presets are examined
			}()
		}
		for _, name := range names {
			if c.Case == 3 {
				func() {
					wl, _ := spg.NewWordList([]string{"uno", "dos", "tres"})
					r := spg.NewWLRecipe(3, wl)
					r.SeparatorFunc = func() (string, spg.FloatE) { panic("separator source failed") }
					func() { defer func() { recover() }(); r.Entropy() }()
				}()
			}
			c16Preset(c, name)
		}
	case 4, 5: // shipped lists
		name, list, file := "AgileWords", spg.AgileWords, repoRoot()+"/testdata/agwordlist.txt"
		if c.Case == 5 {
			name, list, file = "AgileSyllables", spg.AgileSyllables, repoRoot()+"/testdata/agsyllables.txt"
		}
		data, err := os.ReadFile(file)
		if err != nil {
			c.Inconclusive("cannot read " + file + ": " + err.Error())
			return
		}
		lines := strings.Split(strings.TrimRight(string(data), "\n"), "\n")
		// use the list first the way every caller does: it must still be the shipped list afterwards
		if wl, err := spg.NewWordList(list); err == nil {
			r := spg.NewWLRecipe(3, wl)
			r.Capitalize = spg.CSOne
			runGen(r, nil)
			c.Exec(2)
		}
		c.Exec(len(list))
		c.Distinct("nontrivial", "list:"+name)
		c.Count("list_entries_compared", int64(len(list)))
		if len(lines) != len(list) {
			c.Violate("list-"+name, fmt.Sprintf("%s has %d entries, %s has %d lines", name, len(list), file, len(lines)), nil)
			return
		}
		seen := map[string]bool{}
		for i, w := range list {
			line := strings.TrimRight(lines[i], "\r")
			switch {
			case w != line:
				c.Violate("list-"+name, fmt.Sprintf("%s[%d] = %q, data file line %d = %q", name, i, w, i+1, line), nil)
				return
			case w == "":
				c.Violate("list-"+name, fmt.Sprintf("%s[%d] is empty", name, i), nil)
				return
			case seen[w]:
				c.Violate("list-"+name, fmt.Sprintf("%s holds %q twice", name, w), nil)
				return
			case strings.ToLower(w) != w:
				c.Violate("list-"+name, fmt.Sprintf("%s[%d] = %q is not lower-case", name, i, w), nil)
				return
			}
			seen[w] = true
		}
		c.Sample(map[string]interface{}{"list": name, "entries": len(list), "first": list[0], "last": list[len(list)-1], "identical_to": file})
	}
}

func c16Preset(c *Ctx, name string) {
	sf := presetByName[name]
	want := map[string]bool{}
	if name == "SFNone" {
		want[""] = true
	} else {
		rec, _ := presetRecipe(name)
		sem := oracle.CharSemOf(rec)
		all, _ := sem.EnumerateValid(100000)
		for _, s := range all {
			want[s] = true
		}
	}
	documented := map[string]int{"SFNone": 1, "SFDigits1": 10, "SFDigits2": 100, "SFDigitsNoAmbiguous1": 7, "SFDigitsNoAmbiguous2": 49, "SFSymbols": 6, "SFDigitsSymbols": 16}[name]
	c.Distinct("nontrivial", "preset:"+name)
	if len(want) != documented {
		c.Inconclusive(fmt.Sprintf("reference for %s has %d strings, documentation says %d", name, len(want), documented))
		return
	}
	ents := map[uint32]bool{}
	res := explore.Run(explore.Limits{MaxLeaves: 100000, MaxDraws: 32}, func(t *tape.Tape) explore.Outcome {
		t.Install()
		defer tape.Restore()
		key := ""
		func() {
			defer func() {
				if r := recover(); r != nil {
					key = fmt.Sprintf("\x00PANIC %v", r)
				}
			}()
			s, e := sf()
			ents[math.Float32bits(float32(e))] = true
			key = s
		}()
		return explore.Outcome{Key: key}
	})
	c.Exec(res.Leaves + res.Cuts)
	c.Count("preset_executions", int64(res.Leaves))
	det := map[string]interface{}{"preset": name, "outputs": len(res.Mass), "documented_outputs": documented}
	if !res.Complete {
		c.Violate("preset-"+name, fmt.Sprintf("%s: decision tree not finite within 32 draws (unresolved %s)", name, ratString(res.Unresolved)), det)
		return
	}
	each := big.NewRat(1, int64(documented))
	for s, m := range res.Mass {
		if !want[s] {
			c.Violate("preset-"+name, fmt.Sprintf("%s returns %q, which its name does not describe", name, s), det)
			return
		}
		if m.Cmp(each) != 0 {
			c.Violate("preset-"+name, fmt.Sprintf("%s returns %q with probability %s, documented uniform over %d strings", name, s, ratString(m), documented), det)
			return
		}
	}
	if len(res.Mass) != documented {
		c.Violate("preset-"+name, fmt.Sprintf("%s can return %d different strings, documented %d", name, len(res.Mass), documented), det)
		return
	}
	wantE := math.Log2(float64(documented))
	if len(ents) != 1 {
		c.Violate("preset-"+name, fmt.Sprintf("%s declares %d different entropies", name, len(ents)), det)
		return
	}
	for bits := range ents {
		e := float64(math.Float32frombits(bits))
		det["declared_entropy"] = fmt.Sprint(e)
		if math.Abs(e-wantE) > oracle.Ulp32(wantE)+1e-7 {
			c.Violate("preset-"+name, fmt.Sprintf("%s declares %v bits, log2(%d) = %.6f", name, e, documented, wantE), det)
			return
		}
	}
	c.Sample(det)
}
