package main

import (
	"fmt"
	"math"
	"math/big"
	"strings"

	spg "go.1password.io/spg"

	"verifharness/explore"
	"verifharness/oracle"
	"verifharness/tape"
)

// C06 — reported entropy never overstates: no password is likelier than 2^-Entropy.
//
// Monitor: exact probability of every output (complete decision trees of small
// recipes of both kinds) against Generator.Entropy() and Password.Entropy.

func c06Counts(tier string) (charTrees, wlTrees int) {
	if tier == "thorough" {
		return 3000, 3000
	}
	return 250, 300
}

var c06EmptyWordPanel = []WLCase{
	{Words: []string{"", "a"}, Length: 2, Scheme: "none", SepKind: "char"},
}

func init() {
	register(&Prop{
		ID:    "C06",
		Level: "exploration",
		Rule:  "the small character-recipe trees (shared with C02: overlapping requirements, duplicates, multi-byte) and the small wordlist-recipe trees (shared with C04: capitalisable, uncapitalisable, pre-capitalised and twin words under every scheme, functional separators with and without entropy, the presets), each explored completely through the real Generate; for every output its exact probability mass is compared with 2^-Entropy(), Password.Entropy is compared bitwise with Entropy() on every leaf, and on resolved trees the reported value must equal the min-entropy -log2(max mass) of the distribution given that a password is returned. evaluations = executions of Generate; distinct_nontrivial = distinct recipes with at least 2 outputs",
		Assumptions: []string{
			"each bounded draw is uniform (C01)",
			"tolerance: 4 float32 ulps of the entropy + 1e-6 bits (the published value goes through a few float32 operations)",
			"title-casing premise of the property; lists violating it are not judged",
			"with MaxTrials lowered (documented public knob) the comparison conditions on a password being returned",
		},
		MinEvals: 1000,
		NumCases: func(tier string, seed uint64) int {
			a, b := c06Counts(tier)
			return a + b + len(c06EmptyWordPanel) + c06BoundCases(tier)
		},
		RunCase: c06Case,
	})
}

func c06Judge(c *Ctx, name string, suffix string, res *explore.Result, E float32, entropyMismatch string, det map[string]interface{}) {
	c.Exec(res.Leaves + res.Cuts)
	c.Count("tree_leaves", int64(res.Leaves))
	if len(res.Anomalies) > 0 {
		c.Inconclusive("tape anomaly: " + res.Anomalies[0])
		return
	}
	if entropyMismatch != "" {
		c.Violate("password-entropy-field", fmt.Sprintf("recipe %s: %s", name, entropyMismatch), det)
		return
	}
	errMass := new(big.Rat)
	var maxM *big.Rat
	maxKey := ""
	npw := 0
	for key, m := range res.Mass {
		if strings.HasPrefix(key, "PW:") {
			npw++
			if maxM == nil || m.Cmp(maxM) > 0 {
				maxM, maxKey = m, key
			}
		} else {
			errMass.Add(errMass, m)
		}
	}
	if npw == 0 {
		c.Count("recipes_without_output", 1)
		return
	}
	if npw >= 2 {
		c.Distinct("nontrivial", name)
	}
	e := float64(E)
	det["entropy"] = fmt.Sprint(E)
	det["outputs"] = npw
	det["max_mass"] = ratString(maxM)
	if math.IsNaN(e) || math.IsInf(e, -1) {
		c.Violate("entropy-undefined-for-generable-recipe", fmt.Sprintf("recipe %s returns passwords but reports entropy %v", name, E), det)
		return
	}
	tol := 4*oracle.Ulp32(math.Max(math.Abs(e), 1)) + 1e-6
	// (ii) the bound; mass is a lower bound on the probability, so this is sound with unresolved mass
	// condition on a password being returned when the tree is resolved
	cond := new(big.Rat).Set(maxM)
	if res.Complete && errMass.Sign() > 0 && errMass.Cmp(big.NewRat(1, 1)) < 0 {
		cond.Quo(maxM, new(big.Rat).Sub(big.NewRat(1, 1), errMass))
	}
	minEnt := -oracle.Log2Rat(cond)
	det["min_entropy_of_observed_distribution"] = fmt.Sprint(minEnt)
	if -oracle.Log2Rat(maxM) < e-tol && minEnt < e-tol {
		c.Violate("overstated"+suffix, fmt.Sprintf("recipe %s reports %v bits but returns %s with probability %s = 2^-%.4f", name, E, maxKey, ratString(cond), minEnt), det)
		return
	}
	if res.Complete {
		c.Count("trees_fully_resolved", 1)
		if math.Abs(minEnt-e) > tol {
			c.Violate("not-the-min-entropy"+suffix, fmt.Sprintf("recipe %s reports %v bits; the most likely password %s has probability %s, i.e. min-entropy %.6f", name, E, maxKey, ratString(cond), minEnt), det)
			return
		}
		c.Count("equality_confirmed", 1)
	}
}

func c06BoundCases(tier string) int {
	if tier == "thorough" {
		return 400
	}
	return 40
}

// c06Bound: recipes far beyond any tree. Whatever the distribution of the generator, it is spread over at most
// as many outcomes as the recipe admits, so its most likely password has probability at least 1/N and its
// min-entropy is at most log2 N: a reported entropy above log2 of the exact number of admissible outcomes
// overstates, without a single generation.
func c06Bound(c *Ctx) {
	for k := 0; k < 24; k++ {
		if k%3 != 2 {
			rec := anyCharRecipe(c.R, 40)
			if k%6 == 0 {
				rec = reqPatternRecipe(c.R, c.R.Range(1, 4))
				rec.Length = c.R.Range(1, 40)
			}
			if c.R.Chance(1, 3) { // counts at and beyond the float64 range
				rec.Length = []int{100, 171, 172, 173, 200, 256, 400, 1000}[c.R.Intn(8)]
			}
			if nReqSets(rec) > 6 {
				continue
			}
			sem := oracle.CharSemOf(rec)
			N := sem.Count(rec.Length)
			if N.Sign() <= 0 || rec.Length < 1 {
				continue
			}
			E := float64(rec.Entropy())
			c.Exec(1)
			c.Count("support_size_bounds_checked", 1)
			bound := oracle.Log2Big(N)
			if len(sem.ReqLive) > 0 {
				c.Distinct("nontrivial", "bound|"+descChar(rec).String())
			}
			if E > bound+4*oracle.Ulp32(bound)+1e-6 || math.IsNaN(E) {
				c.Violate("overstated:more-bits-than-admissible-passwords", fmt.Sprintf("recipe %s reports %v bits, but only %s strings (log2 = %.6f) satisfy it: some password is likelier than 2^-Entropy whatever the generator does", descChar(rec), E, abbreviate(N.String()), bound),
					map[string]interface{}{"recipe": descChar(rec), "reported": fmt.Sprint(E), "log2_admissible": bound})
				return
			}
			continue
		}
		w := genWLCase(c.R, wlOpts{minWords: 1, maxWords: 12, maxLen: 12, twins: true, uncap: true, noReqSep: true})
		if c.R.Chance(1, 4) {
			w.Length = c.R.Range(30, 400)
		}
		w.UserEnt = 0
		b, err := w.Build()
		if err != nil || hasEmpty(b.Kept) || !oracle.PremiseHolds(b.Kept) {
			continue
		}
		L, size := w.Length, len(b.Kept)
		bound := float64(L) * math.Log2(float64(size))
		switch w.Scheme {
		case "random":
			bound += float64(L)
		case "one":
			bound += math.Log2(float64(L))
		}
		sepOutcomes := 1.0
		switch w.SepKind {
		case "preset":
			if r, ok := presetRecipe(w.Preset); ok {
				sepOutcomes = math.Pow(float64(len(oracle.CharSemOf(r).Alphabet)), float64(r.Length))
			}
		case "constructed":
			sem := oracle.CharSemOf(w.sepRec)
			n, _ := new(big.Float).SetInt(sem.Count(w.sepRec.Length)).Float64()
			sepOutcomes = n + 1 // and the empty separator of a failed generation
		}
		bound += float64(L-1) * math.Log2(sepOutcomes)
		E := float64(b.Rec.Entropy())
		c.Exec(1)
		c.Count("support_size_bounds_checked", 1)
		c.Distinct("nontrivial", "bound|"+w.String())
		if E > bound+8*oracle.Ulp32(bound)+1e-5 || math.IsNaN(E) {
			c.Violate("overstated:more-bits-than-admissible-passwords", fmt.Sprintf("recipe %s reports %v bits, but the passwords it admits number at most 2^%.6f", w.String(), E, bound),
				map[string]interface{}{"recipe": w.String(), "reported": fmt.Sprint(E), "log2_admissible_at_most": bound})
			return
		}
	}
}

func c06Case(c *Ctx) {
	charTrees, wlTrees := c06Counts(c.Tier)
	if c.Case >= charTrees+wlTrees+len(c06EmptyWordPanel) {
		c06Bound(c)
		return
	}
	switch {
	case c.Case < charTrees:
		tc := charTreeCaseFor(c.Tier, c.Seed, c.Case)
		if tc.Trials > 0 {
			defer knobs(tc.Trials, tc.FailRate)()
		}
		fr := tc.frame()
		tc.preCalls()
		E := tc.Rec.Entropy()
		if msg := tc.frameChanged(fr); msg != "" {
			c.Violate("call-modified-recipe-fields", msg, map[string]interface{}{"recipe": descChar(tc.Rec)})
			return
		}
		mismatch := ""
		res := exploreGen(tc.Rec, tc.Lim, func(g GenOut, t *tape.Tape) {
			if g.Pw != nil && mismatch == "" && math.Float32bits(g.Pw.Entropy) != math.Float32bits(E) {
				mismatch = fmt.Sprintf("Password.Entropy=%v but Entropy()=%v (password %q)", g.Pw.Entropy, E, g.Pw.String())
			}
		})
		det := map[string]interface{}{"recipe": descChar(tc.Rec), "max_trials": tc.Trials, "leaves": res.Leaves, "unresolved": ratString(res.Unresolved)}
		c06Judge(c, descChar(tc.Rec).String()+fmt.Sprintf("|trials=%d", tc.Trials), "", res, E, mismatch, det)
		if c.Case < 3 {
			c.Sample(det)
		}
	default:
		k := c.Case - charTrees
		var w WLCase
		var lim explore.Limits
		suffix := ""
		if k >= wlTrees {
			w, lim = c06EmptyWordPanel[k-wlTrees], explore.Limits{MaxLeaves: 20000}
			suffix = ":list-contains-empty-string"
		} else {
			w, lim = wlTreeCaseFor(c.Tier, c.Seed, k)
		}
		if w.SepTrials > 0 {
			c.Count("lowered_knob_separator_cases_not_judged", 1) // the failure mass of the separator is the user's MaxFailRate choice
			return
		}
		b, err := w.Build()
		if err != nil {
			return
		}
		if !oracle.PremiseHolds(b.Kept) {
			c.Count("premise_not_met", 1)
			return
		}
		if hasEmpty(b.Kept) {
			suffix = ":list-contains-empty-string"
		}
		E := b.fresh(w).Rec.Entropy()
		mismatch := ""
		res := exploreWL(w, b, lim, func(g GenOut, t *tape.Tape, _ []string) {
			if g.Pw != nil && mismatch == "" && math.Float32bits(g.Pw.Entropy) != math.Float32bits(E) {
				mismatch = fmt.Sprintf("Password.Entropy=%v but Entropy()=%v (password %q)", g.Pw.Entropy, E, g.Pw.String())
			}
		})
		det := map[string]interface{}{"recipe": w.String(), "leaves": res.Leaves, "unresolved": ratString(res.Unresolved), "all_capitalisable": oracle.AllCapitalizable(b.Kept)}
		c06Judge(c, w.String(), suffix, res, E, mismatch, det)
		if k < 3 {
			c.Sample(det)
		}
		_ = spg.CSNone
	}
}
