package main

import (
	"fmt"
	"math"
	"math/big"
	"strings"

	spg "go.1password.io/spg"

	"verifharness/explore"
	"verifharness/oracle"
	"verifharness/tape"
)

// C06 — reported entropy never overstates: no password is likelier than 2^-Entropy.
//
// Monitor: exact probability of every output (complete decision trees of small
// recipes of both kinds) against Generator.Entropy() and Password.Entropy.

func c06Counts(tier string) (charTrees, wlTrees int) {
	if tier == "thorough" {
		return 3000, 3000
	}
	return 250, 300
}

var c06EmptyWordPanel = []WLCase{
	{Words: []string{"", "a"}, Length: 2, Scheme: "none", SepKind: "char"},
}

func init() {
	register(&Prop{
		ID:    "C06",
		Level: "exploration",
		Rule:  "the small character-recipe trees (shared with C02: overlapping requirements, duplicates, multi-byte) and the small wordlist-recipe trees (shared with C04: capitalisable, uncapitalisable, pre-capitalised and twin words under every scheme, functional separators with and without entropy, the presets), each explored completely through the real Generate; for every output its exact probability mass is compared with 2^-Entropy(), Password.Entropy is compared bitwise with Entropy() on every leaf, and on resolved trees the reported value must equal the min-entropy -log2(max mass) of the distribution given that a password is returned. evaluations = executions of Generate; distinct_nontrivial = distinct recipes with at least 2 outputs",
		Assumptions: []string{
			"each bounded draw is uniform (C01)",
			"tolerance: 4 float32 ulps of the entropy + 1e-6 bits (the published value goes through a few float32 operations)",
			"title-casing premise of the property; lists violating it are not judged",
			"with MaxTrials lowered (documented public knob) the comparison conditions on a password being returned",
		},
		MinEvals: 1000,
		NumCases: func(tier string, seed uint64) int { a, b := c06Counts(tier); return a + b + len(c06EmptyWordPanel) },
		RunCase:  c06Case,
	})
}

func c06Judge(c *Ctx, name string, suffix string, res *explore.Result, E float32, entropyMismatch string, det map[string]interface{}) {
	c.Exec(res.Leaves + res.Cuts)
	c.Count("tree_leaves", int64(res.Leaves))
	if len(res.Anomalies) > 0 {
		c.Inconclusive("tape anomaly: " + res.Anomalies[0])
		return
	}
	if entropyMismatch != "" {
		c.Violate("password-entropy-field", fmt.Sprintf("recipe %s: %s", name, entropyMismatch), det)
		return
	}
	errMass := new(big.Rat)
	var maxM *big.Rat
	maxKey := ""
	npw := 0
	for key, m := range res.Mass {
		if strings.HasPrefix(key, "PW:") {
			npw++
			if maxM == nil || m.Cmp(maxM) > 0 {
				maxM, maxKey = m, key
			}
		} else {
			errMass.Add(errMass, m)
		}
	}
	if npw == 0 {
		c.Count("recipes_without_output", 1)
		return
	}
	if npw >= 2 {
		c.Distinct("nontrivial", name)
	}
	e := float64(E)
	det["entropy"] = fmt.Sprint(E)
	det["outputs"] = npw
	det["max_mass"] = ratString(maxM)
	if math.IsNaN(e) || math.IsInf(e, -1) {
		c.Violate("entropy-undefined-for-generable-recipe", fmt.Sprintf("recipe %s returns passwords but reports entropy %v", name, E), det)
		return
	}
	tol := 4*oracle.Ulp32(math.Max(math.Abs(e), 1)) + 1e-6
	// (ii) the bound; mass is a lower bound on the probability, so this is sound with unresolved mass
	// condition on a password being returned when the tree is resolved
	cond := new(big.Rat).Set(maxM)
	if res.Complete && errMass.Sign() > 0 && errMass.Cmp(big.NewRat(1, 1)) < 0 {
		cond.Quo(maxM, new(big.Rat).Sub(big.NewRat(1, 1), errMass))
	}
	minEnt := -oracle.Log2Rat(cond)
	det["min_entropy_of_observed_distribution"] = fmt.Sprint(minEnt)
	if -oracle.Log2Rat(maxM) < e-tol && minEnt < e-tol {
		c.Violate("overstated"+suffix, fmt.Sprintf("recipe %s reports %v bits but returns %s with probability %s = 2^-%.4f", name, E, maxKey, ratString(cond), minEnt), det)
		return
	}
	if res.Complete {
		c.Count("trees_fully_resolved", 1)
		if math.Abs(minEnt-e) > tol {
			c.Violate("not-the-min-entropy"+suffix, fmt.Sprintf("recipe %s reports %v bits; the most likely password %s has probability %s, i.e. min-entropy %.6f", name, E, maxKey, ratString(cond), minEnt), det)
			return
		}
		c.Count("equality_confirmed", 1)
	}
}

func c06Case(c *Ctx) {
	charTrees, wlTrees := c06Counts(c.Tier)
	switch {
	case c.Case < charTrees:
		tc := charTreeCaseFor(c.Tier, c.Seed, c.Case)
		if tc.Trials > 0 {
			defer knobs(tc.Trials, tc.FailRate)()
		}
		fr := tc.frame()
		tc.preCalls()
		E := tc.Rec.Entropy()
		if msg := tc.frameChanged(fr); msg != "" {
			c.Violate("call-modified-recipe-fields", msg, map[string]interface{}{"recipe": descChar(tc.Rec)})
			return
		}
		mismatch := ""
		res := exploreGen(tc.Rec, tc.Lim, func(g GenOut, t *tape.Tape) {
			if g.Pw != nil && mismatch == "" && math.Float32bits(g.Pw.Entropy) != math.Float32bits(E) {
				mismatch = fmt.Sprintf("Password.Entropy=%v but Entropy()=%v (password %q)", g.Pw.Entropy, E, g.Pw.String())
			}
		})
		det := map[string]interface{}{"recipe": descChar(tc.Rec), "max_trials": tc.Trials, "leaves": res.Leaves, "unresolved": ratString(res.Unresolved)}
		c06Judge(c, descChar(tc.Rec).String()+fmt.Sprintf("|trials=%d", tc.Trials), "", res, E, mismatch, det)
		if c.Case < 3 {
			c.Sample(det)
		}
	default:
		k := c.Case - charTrees
		var w WLCase
		var lim explore.Limits
		suffix := ""
		if k >= wlTrees {
			w, lim = c06EmptyWordPanel[k-wlTrees], explore.Limits{MaxLeaves: 20000}
			suffix = ":list-contains-empty-string"
		} else {
			w, lim = wlTreeCaseFor(c.Tier, c.Seed, k)
		}
		if w.SepTrials > 0 {
			c.Count("lowered_knob_separator_cases_not_judged", 1) // the failure mass of the separator is the user's MaxFailRate choice
			return
		}
		b, err := w.Build()
		if err != nil {
			return
		}
		if !oracle.PremiseHolds(b.Kept) {
			c.Count("premise_not_met", 1)
			return
		}
		if hasEmpty(b.Kept) {
			suffix = ":list-contains-empty-string"
		}
		E := b.fresh(w).Rec.Entropy()
		mismatch := ""
		res := exploreWL(w, b, lim, func(g GenOut, t *tape.Tape, _ []string) {
			if g.Pw != nil && mismatch == "" && math.Float32bits(g.Pw.Entropy) != math.Float32bits(E) {
				mismatch = fmt.Sprintf("Password.Entropy=%v but Entropy()=%v (password %q)", g.Pw.Entropy, E, g.Pw.String())
			}
		})
		det := map[string]interface{}{"recipe": w.String(), "leaves": res.Leaves, "unresolved": ratString(res.Unresolved), "all_capitalisable": oracle.AllCapitalizable(b.Kept)}
		c06Judge(c, w.String(), suffix, res, E, mismatch, det)
		if k < 3 {
			c.Sample(det)
		}
		_ = spg.CSNone
	}
}
