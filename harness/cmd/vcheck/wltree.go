package main

import (
	"encoding/json"
	"fmt"
	"math"
	"math/big"
	"strings"

	spg "go.1password.io/spg"

	"verifharness/explore"
	"verifharness/gen"
	"verifharness/oracle"
	"verifharness/tape"
)

// Shared by C04, C05, C06: a deterministic list of small wordlist recipes whose
// decision trees can be explored completely.

var wlTreePanel = []WLCase{
	{Words: []string{"apple", "pear", "plum"}, Length: 2, Scheme: "random", SepKind: "constructed", sepRec: spg.CharRecipe{Length: 1, AllowChars: "xy"}},
	{Words: []string{"正", "b"}, Length: 1, Scheme: "random", SepKind: "char"},
	{Words: []string{"apple", "pear", "plum", "fig", "kiwi"}, Length: 3, Scheme: "one", SepKind: "char", SepChar: "-"},
	{Words: []string{"a", "b", "c"}, Length: 3, Scheme: "one", SepKind: "preset", Preset: "SFNone"},
	{Words: []string{"apple", "pear", "plum"}, Length: 2, Scheme: "none", SepKind: "preset", Preset: "SFDigits1"},
	{Words: []string{"Polish", "polish", "apple", "pear"}, Length: 2, Scheme: "random", SepKind: "char", SepChar: " "},
	{Words: []string{"Polish", "apple"}, Length: 2, Scheme: "one", SepKind: "char", SepChar: ""},
	{Words: []string{"egy", "kettő", "három"}, Length: 3, Scheme: "first", SepKind: "char", SepChar: "¡"},
	{Words: []string{"x", "y"}, Length: 3, Scheme: "all", SepKind: "user", UserSeps: []string{"", "¡"}, UserEnt: 0},
	{Words: []string{"solo"}, Length: 4, Scheme: "random", SepKind: "preset", Preset: "SFSymbols"},
	{Words: []string{"ab", "cd", "ef"}, Length: 3, Scheme: "random", SepKind: "constructed", sepRec: spg.CharRecipe{Length: 2, AllowChars: "+="}},
	{Words: []string{"ǆa", "ǉb", "ok"}, Length: 2, Scheme: "one", SepKind: "char", SepChar: "語"},
	// long passwords over tiny lists: more capitalisation coins than 16 (and, in the thorough tier, 32) bits
	{Words: []string{"solo"}, Length: 17, Scheme: "random", SepKind: "char", SepChar: ""},
	{Words: []string{"solo"}, Length: 18, Scheme: "random", SepKind: "char", SepChar: "-"},
	{Words: []string{"solo"}, Length: 33, Scheme: "random", SepKind: "char", SepChar: ""},
	{Words: []string{"solo"}, Length: 40, Scheme: "one", SepKind: "char", SepChar: ""},
	{Words: []string{"ab", "cd"}, Length: 9, Scheme: "random", SepKind: "char", SepChar: ""},
	{Words: []string{"uno", "dos", strings.Repeat("tres", 75)}, Length: 2, Scheme: "none", SepKind: "char", SepChar: "-"},
	{Words: []string{"uno", strings.Repeat("é", 256), "caf\xe9"}, Length: 2, Scheme: "first", SepKind: "char", SepChar: ""},
}

func init() {
	for i := range wlTreePanel {
		if wlTreePanel[i].SepKind == "constructed" {
			d := descChar(wlTreePanel[i].sepRec)
			wlTreePanel[i].SepRec = &d
		}
	}
}

func wlTreeCounts(tier string) int {
	if tier == "thorough" {
		return 6000
	}
	return 600
}

func wlLeafEstimate(w WLCase, kept int) float64 {
	L := w.Length
	est := 1.0
	for i := 0; i < L; i++ {
		est *= float64(kept)
	}
	switch w.Scheme {
	case "one":
		est *= float64(L)
	case "random":
		for i := 0; i < L; i++ {
			est *= 2
		}
	}
	d := 1.0
	switch w.SepKind {
	case "preset":
		if r, ok := presetRecipe(w.Preset); ok {
			d = float64(pow(len(oracle.CharSemOf(r).Alphabet), r.Length))
		}
	case "constructed":
		d = float64(pow(len(oracle.CharSemOf(w.sepRec).Alphabet), w.sepRec.Length))
		if d < 1 {
			d = 1
		}
	}
	for i := 0; i < L; i++ { // L-1 gaps + the extra call Entropy() makes
		est *= d
	}
	return est
}

func wlTreeCaseFor(tier string, seed uint64, i int) (WLCase, explore.Limits) {
	budget := 20000
	if tier == "thorough" {
		budget = 250000
	}
	lim := explore.Limits{MaxLeaves: budget, MaxDraws: 400} // no honest wordlist generation of these sizes draws 400 times
	if i < len(wlTreePanel) {
		return wlTreePanel[i], lim
	}
	r := gen.New(seed, "wltree", i)
	maxW, maxL := 5, 3
	if tier == "thorough" {
		maxW, maxL = 8, 4
	}
	for {
		w := genWLCase(r, wlOpts{minWords: 1, maxWords: maxW, maxLen: maxL, twins: r.Chance(1, 3), uncap: r.Chance(1, 2), smallSepOnly: tier != "thorough" || r.Bool(), noReqSep: true})
		if i%5 == 0 {
			w.Words = wlInput(r, 3, 3, false, false) // sizes 3 and 5 (not powers of two) always present
		} else if i%5 == 1 {
			w.Words = wlInput(r, 5, 5, false, false)
		}
		kept := oracle.Normalize(w.Words)
		if hasEmpty(kept) {
			continue
		}
		if i%9 == 4 { // a scheme that is none of the constants (C04 has no reference for these; C05 and C06 judge them)
			w.Scheme = oddSchemes[r.Intn(len(oddSchemes))]
		}
		w.UserEnt = 0                  // the harness's own separator functions are deterministic: they must declare 0 bits
		if i%6 == 3 && w.Length >= 2 { // a failing separator: requirement + a single attempt
			w.SepKind = "constructed"
			w.sepRec = spg.CharRecipe{Length: 1, AllowChars: []string{"xy", "+=", "12"}[r.Intn(3)], RequireSets: nil}
			w.sepRec.RequireSets = []string{oracle.Chars(w.sepRec.AllowChars)[0]}
			d := descChar(w.sepRec)
			w.SepRec = &d
			w.SepTrials = 1
		}
		if wlLeafEstimate(w, len(kept)) <= float64(budget) {
			return w, lim
		}
		if w.Length > 1 {
			w.Length--
			if wlLeafEstimate(w, len(kept)) <= float64(budget) {
				return w, lim
			}
		}
	}
}

// sepDistribution measures the separator function's own output distribution by
// exploring it alone. Constant separators and user-written (deterministic)
// functions are handled by the caller.
func sepDistribution(sf spg.SFFunction) (map[string]*big.Rat, bool) {
	res := explore.Run(explore.Limits{MaxLeaves: 5000, MaxDraws: 64}, func(t *tape.Tape) explore.Outcome {
		t.Install()
		defer tape.Restore()
		key := ""
		func() {
			defer func() {
				if r := recover(); r != nil {
					key = "\x00PANIC"
				}
			}()
			s, _ := sf()
			key = s
		}()
		return explore.Outcome{Key: key}
	})
	if !res.Complete {
		return nil, false
	}
	if _, bad := res.Mass["\x00PANIC"]; bad {
		return nil, false
	}
	return res.Mass, true
}

// sepReference is the documented output distribution of a separator function built from a character
// recipe: uniform over the valid strings; "" when the recipe yields nothing. With a requirement it is exact
// only when the number of attempts is known (trials > 0, MaxFailRate = 1).
func sepReference(sr spg.CharRecipe, trials int) (map[string]*big.Rat, bool) {
	sem := oracle.CharSemOf(sr)
	one := big.NewRat(1, 1)
	if sr.Length < 1 || len(sem.Alphabet) == 0 {
		return map[string]*big.Rat{"": one}, true
	}
	valid, ok := sem.EnumerateValid(200000)
	if !ok {
		return nil, false
	}
	total := sem.Total(sr.Length)
	out := map[string]*big.Rat{}
	if len(sem.ReqLive) == 0 {
		each := new(big.Rat).SetFrac(big.NewInt(1), total)
		for _, v := range valid {
			out[v] = each
		}
		return out, true
	}
	if trials <= 0 || len(valid) == 0 || sem.Emptied > 0 {
		return nil, false
	}
	// k attempts: P(v) = sum_{j<k} (1-p)^j / total ; P("") = (1-p)^k
	p := new(big.Rat).SetFrac(big.NewInt(int64(len(valid))), total)
	q := new(big.Rat).Sub(one, p)
	geo, qj := new(big.Rat), big.NewRat(1, 1)
	for j := 0; j < trials; j++ {
		geo.Add(geo, qj)
		qj = new(big.Rat).Mul(qj, q)
	}
	each := new(big.Rat).Mul(geo, new(big.Rat).SetFrac(big.NewInt(1), total))
	for _, v := range valid {
		out[v] = each
	}
	if qj.Sign() > 0 {
		out[""] = qj
	}
	return out, true
}

// wlReference computes the documented output distribution of a wordlist recipe
// (product of uniform word draws, the scheme's capitalisation law and
// independent separator draws, pushed through the token rendering) as exact
// rationals keyed like outcomeKey. ok=false: not computed (unknown scheme, too
// large).
func wlReference(w WLCase, b *Built) (map[string]*big.Rat, bool) {
	kept := b.Kept
	s, L := len(kept), w.Length
	if L < 1 || s == 0 {
		return nil, false
	}
	// separator distribution per gap
	type sepAlt struct {
		v string
		p *big.Rat
	}
	gapAlts := make([][]sepAlt, L-1)
	one := big.NewRat(1, 1)
	switch w.SepKind {
	case "char":
		for g := range gapAlts {
			gapAlts[g] = []sepAlt{{w.SepChar, one}}
		}
	case "user":
		for _, u := range w.UserSeps {
			if u != w.UserSeps[0] {
				return nil, false // a stateful function: which call serves which gap is the generator's business
			}
		}
		for g := range gapAlts {
			gapAlts[g] = []sepAlt{{w.UserSeps[0], one}}
		}
	default:
		var sf spg.SFFunction
		if w.SepKind == "preset" {
			sf = presetByName[w.Preset]
		} else {
			sf = spg.NewSFFunction(w.sepRec)
		}
		_ = sf
		// the reference distribution of a recipe-built separator comes from the recipe's documented meaning
		// (uniform over the strings it allows), not from what the function is observed to do
		sr := w.sepRec
		if w.SepKind == "preset" {
			if w.Preset == "SFNone" {
				sr = spg.CharRecipe{}
			} else {
				sr, _ = presetRecipe(w.Preset)
			}
		}
		d, ok := sepReference(sr, w.SepTrials)
		if !ok {
			return nil, false
		}
		alts := []sepAlt{}
		for v, p := range d {
			alts = append(alts, sepAlt{v, p})
		}
		for g := range gapAlts {
			gapAlts[g] = alts
		}
	}
	// size of the reference before it is built
	{
		est := 1.0
		for i := 0; i < L; i++ {
			est *= float64(s)
		}
		switch w.Scheme {
		case "one":
			est *= float64(L)
		case "random":
			est *= math.Pow(2, float64(L))
		}
		for _, a := range gapAlts {
			est *= float64(len(a))
		}
		if est > 400000 || L > 30 {
			return nil, false
		}
	}
	// capitalisation law
	type capAlt struct {
		set uint32
		p   *big.Rat
	}
	var caps []capAlt
	switch w.Scheme {
	case "none":
		caps = []capAlt{{0, one}}
	case "first":
		caps = []capAlt{{1, one}}
	case "all":
		caps = []capAlt{{1<<uint(L) - 1, one}}
	case "one":
		for j := 0; j < L; j++ {
			caps = append(caps, capAlt{1 << uint(j), big.NewRat(1, int64(L))})
		}
	case "random":
		for m := uint32(0); m < 1<<uint(L); m++ {
			caps = append(caps, capAlt{m, big.NewRat(1, 1<<uint(L))})
		}
	default:
		return nil, false
	}
	size := float64(len(caps))
	for i := 0; i < L; i++ {
		size *= float64(s)
	}
	for _, a := range gapAlts {
		size *= float64(len(a))
	}
	if size > 400000 {
		return nil, false
	}
	out := map[string]*big.Rat{}
	wordP := new(big.Rat).SetFrac(big.NewInt(1), new(big.Int).Exp(big.NewInt(int64(s)), big.NewInt(int64(L)), nil))
	widx := make([]int, L)
	sidx := make([]int, L-1)
	for {
		for _, ca := range caps {
			// iterate separator tuples
			for i := range sidx {
				sidx[i] = 0
			}
			for {
				p := new(big.Rat).Mul(wordP, ca.p)
				toks := make([]TokRec, 0, 2*L)
				for i := 0; i < L; i++ {
					word := kept[widx[i]]
					if ca.set&(1<<uint(i)) != 0 {
						word = oracle.Title(word)
					}
					toks = append(toks, TokRec{word, 1})
					if i < L-1 {
						a := gapAlts[i][sidx[i]]
						p.Mul(p, a.p)
						if a.v != "" {
							toks = append(toks, TokRec{a.v, 0})
						}
					}
				}
				kb, _ := json.Marshal(toks)
				key := "PW:" + string(kb)
				if m := out[key]; m != nil {
					m.Add(m, p)
				} else {
					out[key] = p
				}
				j := L - 2
				for j >= 0 {
					sidx[j]++
					if sidx[j] < len(gapAlts[j]) {
						break
					}
					sidx[j] = 0
					j--
				}
				if j < 0 {
					break
				}
			}
		}
		j := L - 1
		for j >= 0 {
			widx[j]++
			if widx[j] < s {
				break
			}
			widx[j] = 0
			j--
		}
		if j < 0 {
			break
		}
	}
	return out, true
}

// exploreWL explores the tree of a built wordlist recipe. The separator log
// and user-separator state are reset before every execution.
func exploreWL(w WLCase, b *Built, lim explore.Limits, onLeaf func(GenOut, *tape.Tape, []string)) *explore.Result {
	lim.Hostile = true
	runWith := func(l explore.Limits) *explore.Result {
		return explore.Run(l, func(t *tape.Tape) explore.Outcome {
			b2 := b.fresh(w)
			out := runGen(*b2.Rec, t)
			if !t.Cut && !t.Aux && onLeaf != nil {
				onLeaf(out, t, b2.Log.Returns)
			}
			return explore.Outcome{Key: outcomeKey(out)}
		})
	}
	// Iterative deepening. An honest generation of the sizes explored here makes the same dozen or two draws on
	// every path (d0, read off one probe run), so a first pass cut a little above d0 resolves the whole tree and
	// is all that is run. A generation that may start over (a separator recipe retrying, or a changed library
	// that regenerates) has paths of every length: each deeper pass resolves more of them, and the passes stop
	// as soon as a deeper one leaves no less unresolved than the one before - which is what happens when the
	// leaf budget is spent inside the first endless subtree (20000 paths of 400 draws turned a half-minute
	// check into an hour before this). Every pass is a sound description: masses are lower bounds, Unresolved
	// is exact, and every judgement allows for it; the one with the least unresolved mass is returned.
	pr := gen.New(gen.Hash64(w.String()), "probe")
	ps := make([]uint32, 64)
	for i := range ps {
		ps[i] = pr.U32()
	}
	probe := &tape.Tape{Script: ps, AutoExtend: true, MaxDraws: 64}
	runGen(*b.fresh(w).Rec, probe)
	d0 := len(probe.Path)
	var depths []int
	for _, d := range []int{d0 + 4, 2*d0 + 8, 48} {
		if (lim.MaxDraws == 0 || d < lim.MaxDraws) && (len(depths) == 0 || d > depths[len(depths)-1]) {
			depths = append(depths, d)
		}
	}
	depths = append(depths, lim.MaxDraws)
	var best *explore.Result
	for _, d := range depths {
		l := lim
		l.MaxDraws = d
		if l.MaxLeaves > 0 {
			l.MaxWork = int64(l.MaxLeaves) * 60
		}
		r := runWith(l)
		if r.Complete || len(r.Anomalies) > 0 || r.Unresolved.Cmp(big.NewRat(1, 1000000)) < 0 {
			return r
		}
		if best != nil && r.Unresolved.Cmp(best.Unresolved) >= 0 {
			return best
		}
		best = r
	}
	return best
}

// fresh returns a copy of the built recipe sharing the same WordList but with a
// fresh separator function state and log.
func (b *Built) fresh(w WLCase) *Built {
	nb := &Built{List: b.List, Kept: b.Kept, Log: &SepLog{}}
	rec := *b.Rec // (SeparatorChar is copied along: set as well when the case says so)
	var inner spg.SFFunction
	switch w.SepKind {
	case "preset":
		inner = presetByName[w.Preset]
	case "constructed":
		inner = spg.NewSFFunction(w.sepRec)
	case "user":
		k := 0
		seps, ent := w.UserSeps, w.UserEnt
		inner = func() (string, spg.FloatE) {
			s := seps[k%len(seps)]
			k++
			return s, spg.FloatE(ent)
		}
	}
	if inner != nil {
		log := nb.Log
		rec.SeparatorFunc = func() (string, spg.FloatE) {
			s, e := inner()
			log.Returns = append(log.Returns, s)
			return s, e
		}
	}
	nb.Rec = &rec
	return nb
}

func wlKeyDesc(w WLCase) string { return fmt.Sprint(w.String()) }
