package main

import (
	"fmt"
	"strings"

	spg "go.1password.io/spg"

	"verifharness/oracle"
	"verifharness/tape"
)

// C05 — wordlist password structure matches the recipe (atoms, capitalisation, separators).
//
// Online assertion on every wordlist password obtained from (1) every leaf of
// the small wordlist trees, (2) seed-generated recipes with scripts forcing the
// last word, last position, all heads / all tails, and separator functions
// returning "" on some gaps and multi-byte strings on others, (3) OS randomness.

func c05Counts(tier string) (trees, batches, per int) {
	if tier == "thorough" {
		return 3000, 4000, 50
	}
	return 150, 100, 20
}

func init() {
	register(&Prop{
		ID:    "C05",
		Level: "exploration",
		Rule:  "feeds: every leaf of the complete decision trees of the small wordlist recipes shared with C04; seed-generated (list, Length 1-12, scheme incl. unknown scheme strings, constant / preset / constructed / user-written separators incl. empty and multi-byte ones) driven by scripts forcing last word / last position / all heads / all tails and by OS randomness; lists containing the empty string as a separately labelled class. Every password's Tokens/String/Atoms/Separators are checked against the kept words (reference normalisation), the scheme's capitalisation positions and the separators the separator function actually returned (recorded by a wrapper). evaluations = passwords checked; distinct_nontrivial = distinct recipes with Length>=2",
		Assumptions: []string{
			"the expected separator of gap g is what the separator function returned on one of its calls during that Generate, in call order (the extra call Entropy() makes may come first or last)",
			"title-casing is strings.Title, as the documentation of the schemes implies",
		},
		MinEvals: 1000,
		NumCases: func(tier string, seed uint64) int { t, b, _ := c05Counts(tier); return t + b },
		RunCase:  c05Case,
	})
}

// checkWLPassword is the C05 monitor. sepReturns are the values the separator
// function returned during the call, in order.
func checkWLPassword(w WLCase, kept []string, p *spg.Password, sepReturns []string) (class, msg string) {
	suffix := ""
	if hasEmpty(kept) {
		suffix = ":list-contains-empty-string"
	}
	L := w.Length
	ts := p.Tokens()
	keptSet, titleSet := map[string]bool{}, map[string]bool{}
	for _, k := range kept {
		keptSet[k] = true
		titleSet[oracle.Title(k)] = true
	}
	atoms := ts.Atoms()
	seps := ts.Separators()
	// String, Atoms, Separators consistent with Tokens
	cat := ""
	var a2, s2 []string
	for _, t := range ts {
		cat += t.Value()
		switch t.Type() {
		case spg.AtomType:
			a2 = append(a2, t.Value())
		case spg.SeparatorType:
			s2 = append(s2, t.Value())
		default:
			return "token-type", fmt.Sprintf("token %q has type %d", t.Value(), t.Type())
		}
	}
	if p.String() != cat {
		return "string-not-concatenation", fmt.Sprintf("String()=%q, tokens concatenate to %q", p.String(), cat)
	}
	if !equalStrings(atoms, a2) && !(len(atoms) == 0 && len(a2) == 0) {
		return "atoms-accessor", fmt.Sprintf("Atoms()=%q, atom tokens %q", atoms, a2)
	}
	if !equalStrings(seps, s2) && !(len(seps) == 0 && len(s2) == 0) {
		return "separators-accessor", fmt.Sprintf("Separators()=%q, separator tokens %q", seps, s2)
	}
	if len(atoms) != L {
		return "atom-count" + suffix, fmt.Sprintf("%d atoms for Length %d: %q", len(atoms), L, atoms)
	}
	// capitalisation positions
	if cl, msg := capsOK(w.Scheme, atoms, keptSet, titleSet); cl != "" {
		return cl, msg
	}
	// expected separators
	var gap []string
	switch w.SepKind {
	case "char":
		for i := 0; i < L-1; i++ {
			gap = append(gap, w.SepChar)
		}
	default:
		if len(sepReturns) < L-1 {
			return "separator-calls", fmt.Sprintf("separator function was called %d times for %d gaps", len(sepReturns), L-1)
		}
	}
	build := func(gap []string) []oracle.Tok {
		exp := []oracle.Tok{}
		for i, a := range atoms {
			exp = append(exp, oracle.Tok{V: a, T: 1})
			if i < L-1 && gap[i] != "" {
				exp = append(exp, oracle.Tok{V: gap[i], T: 0})
			}
		}
		return exp
	}
	got := refToks(p)
	same := func(exp []oracle.Tok) bool {
		if len(exp) != len(got) {
			return false
		}
		for i := range exp {
			if exp[i] != got[i] {
				return false
			}
		}
		return true
	}
	if gap != nil || L == 1 {
		if gap == nil {
			gap = []string{}
		}
		if !same(build(gap)) {
			return "separator-structure", fmt.Sprintf("tokens %v, expected atoms interleaved with separator %q", tokRecs(p), w.SepChar)
		}
		return "", ""
	}
	// functional separator: some window of L-1 consecutive returns must explain the tokens
	for off := 0; off+L-1 <= len(sepReturns); off++ {
		if same(build(sepReturns[off : off+L-1])) {
			return "", ""
		}
	}
	return "separator-structure", fmt.Sprintf("tokens %v cannot be explained by atoms interleaved with the separator function's returns %q", tokRecs(p), sepReturns)
}

func c05Case(c *Ctx) {
	trees, _, per := c05Counts(c.Tier)
	if c.Case < trees {
		w, lim := wlTreeCaseFor(c.Tier, c.Seed, c.Case)
		if lim.MaxLeaves > 6000 && !c.Thorough() {
			lim.MaxLeaves = 6000
		}
		if w.SepTrials > 0 {
			defer knobs(w.SepTrials, 1)()
		}
		b, err := w.Build()
		if err != nil {
			return
		}
		ok := true
		res := exploreWL(w, b, lim, func(g GenOut, t *tape.Tape, rets []string) {
			if g.Pw == nil || !ok {
				return
			}
			c.Count("passwords_checked", 1)
			if cl, msg := checkWLPassword(w, b.Kept, g.Pw, rets); cl != "" {
				ok = false
				c.Violate(cl, fmt.Sprintf("recipe %s: %s", w.String(), msg), map[string]interface{}{"recipe": w.String(), "tokens": tokRecs(g.Pw), "draw_path": t.Path})
			}
		})
		c.Exec(res.Leaves + res.Cuts)
		c.Count("tree_leaves", int64(res.Leaves))
		if w.Length >= 2 {
			c.Distinct("nontrivial", w.String())
		}
		return
	}
	for k := 0; k < per; k++ {
		w := genWLCase(c.R, wlOpts{minWords: 1, maxWords: 12, maxLen: 12, twins: true, uncap: true, allowUnknownScheme: true, hostileWords: c.R.Chance(1, 4), noReqSep: c.R.Bool()})
		if c.R.Chance(1, 10) { // long passwords
			w.Length = c.R.Range(30, 80)
		}
		emptyClass := c.R.Chance(1, 12)
		if emptyClass {
			w.Words = append(w.Words, "")
		}
		if k == 0 && c.Case == trees {
			w = WLCase{Words: []string{"", "a"}, Length: 2, Scheme: "none", SepKind: "char"}
		}
		b, err := w.Build()
		if err != nil {
			continue
		}
		if w.Length >= 2 {
			c.Distinct("nontrivial", w.String())
		}
		size := len(b.Kept)
		// passwords already returned must stay what they were while the same list serves other recipes
		type kept struct {
			p    *spg.Password
			toks []TokRec
			str  string
		}
		var retained []kept
		for run := 0; run < 6; run++ {
			var tp *tape.Tape
			script := make([]uint32, 4*w.Length+8)
			for i := range script {
				script[i] = c.R.U32()
			}
			switch run {
			case 0: // last alternative everywhere: last word, last position, all heads
				for i := range script {
					script[i] = tape.Last
				}
				tp = &tape.Tape{Script: script}
			case 1: // first alternative everywhere: all tails
				for i := range script {
					script[i] = 0
				}
				tp = &tape.Tape{Script: script}
			case 2, 3:
				script[c.R.Intn(len(script))] = tape.Last
				tp = &tape.Tape{Script: script}
			}
			b2 := b.fresh(w)
			g := runGen(*b2.Rec, tp)
			c.Exec(1)
			if g.Pw == nil {
				if g.Panic != nil && g.SourcePanic() && tp != nil {
					c.Count("script_too_short", 1)
					continue
				}
				c.Violate("generation-failed", fmt.Sprintf("recipe %s: err=%v panic=%v", w.String(), g.Err, g.Panic), map[string]interface{}{"recipe": w.String()})
				break
			}
			c.Count("passwords_checked", 1)
			if cl, msg := checkWLPassword(w, b.Kept, g.Pw, b2.Log.Returns); cl != "" {
				c.Violate(cl, fmt.Sprintf("recipe %s: %s", w.String(), msg), map[string]interface{}{"recipe": w.String(), "tokens": abbreviateToks(tokRecs(g.Pw)), "separator_returns": b2.Log.Returns})
				break
			}
			if run == 0 && k == 0 && c.Case < trees+3 {
				c.Sample(map[string]interface{}{"recipe": w.String(), "list_size": size, "script": "last alternative at every draw", "tokens": abbreviateToks(tokRecs(g.Pw))})
			}
			retained = append(retained, kept{g.Pw, tokRecs(g.Pw), g.Pw.String()})
			// the caller copies the recipe by value and gives the copy another constant separator
			if w.SepKind == "char" && run%2 == 0 {
				cp := *b.Rec
				w2 := w
				w2.SepChar = []string{"+", "", "__", "語"}[run/2%4]
				cp.SeparatorChar = w2.SepChar
				if cg := runGen(&cp, nil); cg.Pw != nil {
					c.Exec(1)
					c.Count("value_copies_checked", 1)
					if cl, msg := checkWLPassword(w2, b.Kept, cg.Pw, nil); cl != "" {
						c.Violate(cl, fmt.Sprintf("a value copy of recipe %s with SeparatorChar %q: %s", w.String(), w2.SepChar, msg), map[string]interface{}{"recipe": w.String(), "copy_separator": w2.SepChar, "tokens": abbreviateToks(tokRecs(cg.Pw))})
						break
					}
				}
			}
			// another recipe of a different shape on the same list, then look at the earlier passwords again
			other := spg.NewWLRecipe(1+(w.Length+run)%7, b.List)
			other.Capitalize = spg.CapScheme(schemes[(run+1)%5])
			other.SeparatorChar = []string{"", "-", "語語"}[run%3]
			if og := runGen(other, nil); og.Pw != nil {
				c.Exec(1)
				retained = append(retained, kept{og.Pw, tokRecs(og.Pw), og.Pw.String()})
			}
			changed := false
			for ri, r := range retained {
				now := tokRecs(r.p)
				same := len(now) == len(r.toks) && r.p.String() == r.str
				for i := 0; same && i < len(now); i++ {
					same = now[i] == r.toks[i]
				}
				if !same {
					c.Violate("returned-password-changed-later", fmt.Sprintf("recipe %s: a password returned earlier (%q) reads %q after further generations from the same word list", w.String(), r.str, r.p.String()),
						map[string]interface{}{"recipe": w.String(), "earlier_tokens": abbreviateToks(r.toks), "now_tokens": abbreviateToks(now), "retained_index": ri})
					changed = true
					break
				}
			}
			c.Count("retained_passwords_rechecked", int64(len(retained)))
			if changed {
				break
			}
		}
		_ = strings.Join
	}
}

// capsOK checks the atoms against the positions the capitalisation scheme selects.
func capsOK(scheme string, atoms []string, keptSet, titleSet map[string]bool) (class, msg string) {
	w := struct{ Scheme string }{scheme}
	isKept := func(a string) bool { return keptSet[a] }
	isTitle := func(a string) bool { return titleSet[a] }
	switch w.Scheme {
	case "none":
		for i, a := range atoms {
			if !isKept(a) {
				return "atom-not-a-list-word", fmt.Sprintf("scheme none: atom %d %q is not a word of the list", i, a)
			}
		}
	case "first":
		for i, a := range atoms {
			if i == 0 && !isTitle(a) {
				return "capitalisation-first", fmt.Sprintf("scheme first: atom 0 %q is not a title-cased list word", a)
			}
			if i > 0 && !isKept(a) {
				return "capitalisation-first", fmt.Sprintf("scheme first: atom %d %q is not a plain list word", i, a)
			}
		}
	case "all":
		for i, a := range atoms {
			if !isTitle(a) {
				return "capitalisation-all", fmt.Sprintf("scheme all: atom %d %q is not a title-cased list word", i, a)
			}
		}
	case "one":
		ok := false
		for j := range atoms {
			if !isTitle(atoms[j]) {
				continue
			}
			rest := true
			for i, a := range atoms {
				if i != j && !isKept(a) {
					rest = false
				}
			}
			if rest {
				ok = true
			}
		}
		if !ok {
			return "capitalisation-one", fmt.Sprintf("scheme one: atoms %q are not list words with exactly one of them title-cased", atoms)
		}
	case "random":
		for i, a := range atoms {
			if !isKept(a) && !isTitle(a) {
				return "atom-not-a-list-word", fmt.Sprintf("atom %d %q is neither a list word nor its title-cased form", i, a)
			}
		}
	default: // a string that is none of the five schemes selects no position
		for i, a := range atoms {
			if !isKept(a) {
				return "capitalisation-unknown-scheme", fmt.Sprintf("scheme %q is not one of the five schemes and selects no position, but atom %d %q is not a word of the list as listed", w.Scheme, i, a)
			}
		}
	}
	return "", ""
}
