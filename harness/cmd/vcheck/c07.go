package main

import (
	"fmt"
	"math"
	"math/big"
	"strings"

	spg "go.1password.io/spg"

	"verifharness/gen"
	"verifharness/oracle"
)

// C07 — character-recipe entropy = log2 of the exact number of satisfying passwords.
//
// Monitor: reference count by arbitrary-precision inclusion-exclusion
// (cross-checked against brute-force enumeration wherever a^L <= 10^6) against
// the exact integer the implementation takes the logarithm of (verif hook) and
// against Entropy() itself, five calls each.

func c07Counts(tier string) (batches, per int) {
	if tier == "thorough" {
		return 20000, 100
	}
	return 400, 50
}

func init() {
	register(&Prop{
		ID:    "C07",
		Level: "exploration",
		Rule:  "VERIF_SEED-generated recipes (+ fixed panel): every overlap pattern between Allow/Require/Exclude classes and custom strings and among 0-8 required sets (nested, chained, identical, disjoint, class+custom such as Require Digits + {\"357\"}), lengths 1-12 (brute-force cross-check of the reference when a^L<=10^6) and {20,64,255,1000,4096} (arbitrary precision). Domain as quantified: Length>=1, no required set emptied by exclusion. evaluations = Entropy()/VerifCount calls; distinct_nontrivial = distinct recipes with at least one live required set",
		Assumptions: []string{
			"reference count = sum over subsets T of the live required sets of (-1)^|T| * |alphabet - union(T)|^L, in math/big; its log2 via a 200-bit big.Float mantissa/exponent split",
			"tolerance: one float32 ulp of the value plus 1e-6",
		},
		MinEvals: 1000,
		NumCases: func(tier string, seed uint64) int { b, _ := c07Counts(tier); return b + 1 },
		RunCase:  c07Case,
	})
}

var c07Panel = []spg.CharRecipe{
	{Length: 8, Allow: spg.Letters, Require: spg.Digits, RequireSets: []string{"357"}},
	{Length: 3, AllowChars: "", RequireSets: []string{"ab", "bc"}},
	{Length: 2, RequireSets: []string{"ab", "ab"}},
	{Length: 4, AllowChars: "z", RequireSets: []string{"ab", "bc", "cd"}},
	{Length: 1, RequireSets: []string{"a", "b"}},
	{Length: 20, Allow: spg.All, Exclude: spg.Ambiguous, Require: spg.Digits | spg.Symbols | spg.Uppers | spg.Lowers},
	{Length: 20, Allow: spg.All, Require: spg.Digits | spg.Ambiguous},
	{Length: 4096, Allow: spg.All, Require: spg.Digits, RequireSets: []string{"abc"}},
	{Length: 1000, Allow: spg.Lowers, RequireSets: []string{"a", "b", "c", "d"}},
	{Length: 5, Allow: spg.Digits},
	{Length: 255, AllowChars: "語🙂é", RequireSets: []string{"語"}},
	{Length: 6, Allow: spg.Letters, Require: spg.Uppers, RequireSets: []string{"ABC", "AXY"}},
	{Length: 12, Allow: spg.Digits, Require: spg.Digits, RequireSets: []string{"0", "01", "012"}},
	{Length: 3, AllowChars: cjkRange(5000)},
	{Length: 4, AllowChars: cjkRange(5000), Require: spg.Digits},
	{Length: 2, AllowChars: cjkRange(66000)},
}

// cjkRange returns n distinct characters starting at U+4E00 (skipping the surrogate block).
func cjkRange(n int) string {
	var b strings.Builder
	r := rune(0x4e00)
	for i := 0; i < n; i++ {
		if r >= 0xd800 && r <= 0xdfff {
			r = 0xe000
		}
		b.WriteRune(r)
		r++
	}
	return b.String()
}

// reqPatternRecipe builds a recipe with k required sets in a chosen overlap pattern.
func reqPatternRecipe(r *gen.R, k int) spg.CharRecipe {
	rec := spg.CharRecipe{}
	useClasses := r.Chance(1, 2)
	univ := oracle.Chars("abcdefghij")
	if r.Chance(1, 4) {
		univ = oracle.Chars("aé語🙂bcßd")
	}
	if useClasses {
		rec.Allow = spg.CTFlag(r.Intn(16))
		univ = oracle.Chars("0123456789abcABC!@")
	} else {
		rec.AllowChars = dupSome(r, subsetOf(r, univ, 0, len(univ)))
	}
	pat := r.Intn(6)
	base := subsetOf(r, univ, 2, 4)
	for i := 0; i < k; i++ {
		if useClasses && r.Chance(1, 3) {
			bit := spg.CTFlag(1 << uint(r.Intn(5)))
			if rec.Require&bit == 0 {
				rec.Require |= bit
				continue
			}
		}
		var s string
		switch pat {
		case 0: // random overlaps
			s = subsetOf(r, univ, 1, 4)
		case 1: // identical
			s = base
		case 2: // chain
			s = univ[i%len(univ)] + univ[(i+1)%len(univ)]
		case 3: // nested
			s = subsetOf(r, oracle.Chars(base), 1, len(oracle.Chars(base)))
		case 4: // disjoint singletons
			s = univ[i%len(univ)]
		default: // pairwise overlapping in one shared character
			s = univ[0] + univ[(i+1)%len(univ)]
		}
		rec.RequireSets = append(rec.RequireSets, s)
	}
	if r.Chance(1, 4) {
		rec.Exclude = spg.Ambiguous
	}
	if r.Chance(1, 5) {
		rec.ExcludeChars = subsetOf(r, univ, 1, 2)
	}
	return rec
}

func c07Recipe(c *Ctx, k int) spg.CharRecipe {
	r := c.R
	var rec spg.CharRecipe
	switch r.Intn(4) {
	case 0:
		rec = anyCharRecipe(r, 12)
	case 1:
		rec = smallCharRecipe(r, 8, 8, 3)
	default:
		// number of required sets: weighted to 0-3, 4-5 regularly, 6-8 rarely
		nset := []int{0, 1, 2, 3, 4, 5, 6, 7, 8}[r.Weighted([]int{4, 10, 12, 10, 6, 4, 2, 1, 1})]
		if c.Thorough() && r.Chance(1, 200) {
			nset = r.Range(6, 8)
		}
		rec = reqPatternRecipe(r, nset)
	}
	if r.Chance(1, 100) { // 9-12 required sets: thousands of inclusion-exclusion terms
		k := r.Range(9, 12)
		rec = spg.CharRecipe{}
		letters := oracle.Chars("abcdefghijklmnopqrstuvwxyzABCDEFGHIJKLMNOPQRSTUVWXYZ0123456789")
		for i := 0; i < k; i++ {
			rec.RequireSets = append(rec.RequireSets, strings.Join(letters[5*i:5*i+r.Range(2, 5)], ""))
		}
		rec.Length = r.Range(k, 3*k+10)
		return rec
	}
	switch r.Intn(10) {
	case 0:
		rec.Length = []int{20, 64, 255, 1000, 4096}[r.Intn(5)]
	case 1:
		rec.Length = 1
	default:
		rec.Length = r.Range(1, 12)
	}
	_ = k
	return rec
}

func c07Case(c *Ctx) {
	_, per := c07Counts(c.Tier)
	var recs []spg.CharRecipe
	if c.Case == 0 {
		recs = c07Panel
	} else {
		for k := 0; k < per; k++ {
			rec := c07Recipe(c, k)
			if k%3 == 0 { // field-regrouped variants first: a memo keyed on a lossy rendering would answer for the wrong recipe
				sibs := siblingsOf(c.R, rec)
				if k%6 == 0 { // policies that are prefixes of one RequireSets array with spare capacity
					sibs = shareArrays(&rec, sibs)
					recs = append(recs, rec) // the shorter prefix is evaluated first as well
				}
				for _, sib := range sibs {
					if sib.Length >= 1 {
						recs = append(recs, sib)
					}
				}
			}
			recs = append(recs, rec)
		}
	}
	snaps := make([]string, len(recs))
	sems := make([]oracle.CharSem, len(recs))
	for k, rec := range recs {
		snaps[k] = snapChar(rec)
		sems[k] = oracle.CharSemOf(rec) // the meaning of the fields as given, before any library call
	}
	defer func() {
		for k, rec := range recs {
			if snapChar(rec) != snaps[k] {
				c.Violate("call-modified-recipe-fields", fmt.Sprintf("Entropy()/VerifCount calls changed the public fields / caller-owned RequireSets array of a recipe: before %s after %s", snaps[k], snapChar(rec)), nil)
				return
			}
		}
	}()
	for k, rec := range recs {
		sem := sems[k]
		if rec.Length < 1 || sem.Emptied > 0 {
			c.Count("outside_domain", 1)
			continue
		}
		nr := nReqSets(rec)
		if nr > 12 {
			c.Count("skipped_too_many_sets", 1)
			continue
		}
		N := sem.Count(rec.Length)
		if bf, ok := sem.Brute(rec.Length, 1_000_000); ok {
			c.Count("reference_cross_checked_by_brute_force", 1)
			if big.NewInt(bf).Cmp(N) != 0 {
				c.Inconclusive(fmt.Sprintf("reference oracles disagree on %s: inclusion-exclusion %s, brute force %d", descChar(rec), N, bf))
				return
			}
		}
		want := oracle.Log2Big(N)
		var vals [5]float32
		for i := range vals {
			vals[i] = rec.Entropy()
		}
		c.Exec(5)
		c.Count(fmt.Sprintf("recipes_with_%d_required_sets", len(sem.ReqLive)), 1)
		if len(sem.ReqLive) > 0 {
			c.Distinct("nontrivial", descChar(rec).String())
		}
		det := map[string]interface{}{"recipe": descChar(rec), "reference_count": N.String(), "reference_log2": fmt.Sprint(want), "entropy": fmt.Sprint(vals[0])}
		if len(N.String()) > 60 {
			det["reference_count"] = fmt.Sprintf("%d-bit integer", N.BitLen())
		}
		for i := 1; i < 5; i++ {
			if math.Float32bits(vals[i]) != math.Float32bits(vals[0]) {
				c.Violate("entropy-unstable", fmt.Sprintf("recipe %s: Entropy() returned %v then %v", descChar(rec), vals[0], vals[i]), det)
				return
			}
		}
		e := float64(vals[0])
		if len(sem.ReqLive) > 0 {
			got := spg.VerifCount(rec)
			c.Exec(1)
			det["implementation_count"] = got.String()
			if len(got.String()) > 60 {
				det["implementation_count"] = fmt.Sprintf("%d-bit integer (sign %d)", got.BitLen(), got.Sign())
			}
			if got.Cmp(N) != 0 {
				class := "count-wrong"
				if overlapping(sem) {
					class = "count-wrong-overlapping-required-sets"
				}
				c.Violate(class, fmt.Sprintf("recipe %s: the entropy is the log of %s but exactly %s strings satisfy the recipe (Entropy()=%v, log2 of the true count %.6f)", descChar(rec), det["implementation_count"], det["reference_count"], vals[0], want), det)
				continue
			}
		}
		switch {
		case math.IsNaN(e):
			c.Violate("entropy-nan", fmt.Sprintf("recipe %s: Entropy() is NaN (true count %s)", descChar(rec), det["reference_count"]), det)
		case N.Sign() == 0:
			if !math.IsInf(e, -1) {
				c.Violate("entropy-not-minus-inf", fmt.Sprintf("recipe %s: no string satisfies the recipe but Entropy()=%v", descChar(rec), vals[0]), det)
			}
			c.Count("recipes_with_zero_count", 1)
		default:
			tol := oracle.Ulp32(want) + 1e-6
			if math.IsInf(e, 0) || math.Abs(e-want) > tol {
				c.Violate("entropy-off", fmt.Sprintf("recipe %s: Entropy()=%v, log2 of the exact count is %.9g (tolerance %.3g)", descChar(rec), vals[0], want, tol), det)
			}
		}
		if k < 2 && c.Case < 2 {
			c.Sample(det)
		}
	}
}

// overlapping reports whether two live required sets share a character.
func overlapping(sem oracle.CharSem) bool {
	seen := map[string]bool{}
	for _, set := range sem.ReqLive {
		for _, ch := range set {
			if seen[ch] {
				return true
			}
		}
		for _, ch := range set {
			seen[ch] = true
		}
	}
	return false
}
