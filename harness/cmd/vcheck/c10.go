package main

import (
	"fmt"
	"os"
	"strings"

	spg "go.1password.io/spg"

	"verifharness/gen"
	"verifharness/oracle"
	"verifharness/tape"
)

// C10 — word lists normalise to a duplicate-free set; capitalised twins are removed.

func c10Counts(tier string) (cases, per int) {
	if tier == "thorough" {
		return 10000, 40
	}
	return 192, 32
}

func init() {
	register(&Prop{
		ID:    "C10",
		Level: "exploration",
		Rule:  "seed-generated inputs to NewWordList (duplicates, words present in lower-case and title-case form, title form only, chains such as {éa, Éa, ÉA}, digraph letters with a distinct title case, caseless and pre-capitalised words, multi-word entries, the empty string, non-ASCII), each constructed 32 times from the same slice and from 32 permutations / multiplicities; the kept words are read out through Generate (one-word passwords for every index) and compared with the reference normalisation; the caller's slice (with its capacity tail) is compared before/after; atoms of generated passwords are checked against the kept set; plus both shipped lists and the empty/nil input. a fifth of the cases run with standard error unwritable (closed file, /dev/full). evaluations = NewWordList constructions + generations; distinct_nontrivial = distinct inputs in which normalisation removes at least one entry",
		Assumptions: []string{
			"reference: kept = distinct(input) minus every word that is strings.Title of another listed word",
			"word order inside a list is read out through the public API with index scripts (no hook)",
		},
		MinEvals: 1000,
		NumCases: func(tier string, seed uint64) int { c, _ := c10Counts(tier); return c + 2 },
		RunCase:  c10Case,
	})
}

var c10Fixed = [][]string{
	{"Polish", "polish", "apple", "pear"},
	{"éa", "Éa", "ÉA"},
	{"ǆa", "ǅa", "Ǆa"},
	{"a", "a", "a"},
	{"Apple", "apple", "Apple", "APPLE"},
	{"", "a"},
	{"", "", "A", "a"},
	{"ice cream", "Ice Cream", "Ice cream"},
	{"123", "123", "語"},
	{"x"},
	{"o'neil", "O'Neil", "O'neil"},
	{"ß", "SS", "Ss", "ss"},
}

// c10BigInput: thousands of distinct words with a few twins and uncapitalisable words among them.
func c10BigInput(r *gen.R) []string {
	n, rep := r.Range(2048, 2600), 1
	switch r.Intn(8) { // inputs whose length (with repeats) crosses 2^15 and 2^16
	case 0:
		n, rep = r.Range(11000, 14000), r.Range(2, 4)
	case 1:
		n = r.Range(32760, 32780)
	case 2:
		n = r.Range(65530, 66000)
	}
	in := make([]string, 0, rep*(n+8))
	for i := 0; i < n; i++ {
		in = append(in, fmt.Sprintf("w%dx%c", i, 'a'+rune(i%26)))
	}
	for k := r.Range(1, 4); k > 0; k-- {
		w := in[r.Intn(n)]
		in = append(in, oracle.Title(w)) // capitalised twin of a listed word
	}
	if r.Bool() {
		in = append(in, "4", "Paris")
	}
	once := len(in)
	for k := 1; k < rep; k++ { // the same words listed again: multiplicity must not matter
		in = append(in, in[:once]...)
	}
	return r.ShuffleStrings(in)
}

func c10Input(r *gen.R) []string {
	if r.Chance(1, 8) {
		return append([]string(nil), c10Fixed[r.Intn(len(c10Fixed))]...)
	}
	in := wlInput(r, 1, 14, true, true)
	if r.Chance(1, 4) { // title form only (lower form absent): must be kept
		in = append(in, oracle.Title(wordPools[0][r.Intn(8)]))
	}
	if r.Chance(1, 10) {
		in = append(in, "")
	}
	if r.Chance(1, 8) { // words beyond what the token index can describe are words all the same
		in = append(in, strings.Repeat("a", 256), strings.Repeat("é", 255), strings.Repeat("long", 80))
	}
	if r.Chance(1, 6) { // twin of a twin
		w := in[r.Intn(len(in))]
		in = append(in, oracle.Title(w), strings.ToUpper(w))
	}
	return in
}

// readOutChecked constructs a list from in, reads it out and compares it with the reference.
func c10Construct(c *Ctx, in []string, want []string, label string) bool {
	backing := make([]string, len(in), len(in)+3)
	copy(backing, in)
	full := backing[:cap(backing)]
	full[len(in)], full[len(in)+1], full[len(in)+2] = "tail-sentinel-1", "Tail-Sentinel-2", in[0]
	snapshot := append([]string(nil), full...)
	wl, err := spg.NewWordList(backing)
	c.Exec(1)
	det := map[string]interface{}{"input": in, "how": label, "reference_kept": want}
	if err != nil || wl == nil {
		c.Violate("non-empty-list-refused", fmt.Sprintf("NewWordList(%q) returned error %v", in, err), det)
		return false
	}
	if !equalStrings(full, snapshot) {
		c.Violate("caller-slice-modified", fmt.Sprintf("NewWordList changed the caller's slice: before %q after %q", snapshot, full), det)
		return false
	}
	got, rerr := readOutList(wl)
	c.Exec(len(got))
	if rerr != nil {
		c.Violate("read-out-failed", fmt.Sprintf("list built from %q: %v", in, rerr), det)
		return false
	}
	det["kept"] = got
	// the caller reuses their buffer: the list must not notice
	for i := range full {
		full[i] = fmt.Sprintf("overwritten-%d", i)
	}
	again, rerr2 := readOutList(wl)
	c.Exec(len(again))
	if rerr2 != nil || !equalStrings(again, got) {
		c.Violate("list-aliases-caller-slice", fmt.Sprintf("list built from %q (%s): after the caller overwrote their own slice the list reads %q instead of %q", in, label, again, got), det)
		return false
	}
	if int(wl.Size()) != len(got) || int(spg.NewWLRecipe(1, wl).Size()) != len(got) {
		c.Violate("size-mismatch", fmt.Sprintf("Size()=%d but %d words can be drawn", wl.Size(), len(got)), det)
		return false
	}
	sorted := sortedCopy(got)
	for i := 1; i < len(sorted); i++ {
		if sorted[i] == sorted[i-1] {
			c.Violate("duplicate-kept", fmt.Sprintf("list built from %q (%s) holds %q twice", in, label, sorted[i]), det)
			return false
		}
	}
	if !equalStrings(sorted, want) {
		class := "kept-set-wrong"
		if len(sorted) < len(want) {
			class = "word-wrongly-dropped"
		} else if len(sorted) > len(want) {
			class = "word-wrongly-kept"
		}
		c.Violate(class, fmt.Sprintf("list built from %q (%s) keeps %q, reference normalisation keeps %q", in, label, sorted, want), det)
		return false
	}
	return true
}

func c10Case(c *Ctx) {
	cases, per := c10Counts(c.Tier)
	if c.Case >= cases {
		c10Shipped(c, c.Case-cases)
		return
	}
	if c.Case%5 == 3 { // the diagnostics channel is broken (closed descriptor, full device): what is kept must not depend on it
		defer brokenStderr()()
		c.Count("cases_with_unwritable_standard_error", 1)
	}
	if c.Case == 0 {
		for _, empty := range [][]string{nil, {}} {
			wl, err := spg.NewWordList(empty)
			c.Exec(1)
			if wl != nil || err == nil {
				c.Violate("empty-list-accepted", fmt.Sprintf("NewWordList(%#v) returned (%v, %v)", empty, wl, err), nil)
			}
		}
	}
	for k := 0; k < per; k++ {
		in := c10Input(c.R)
		if k == per-1 && c.Case%4 == 1 {
			in = c10BigInput(c.R)
			c.Count("big_lists", 1)
		}
		if c.Case == 0 && k < len(c10Fixed) {
			in = append([]string(nil), c10Fixed[k]...)
		}
		want := oracle.Normalize(in)
		distinct := map[string]bool{}
		for _, w := range in {
			distinct[w] = true
		}
		if len(want) < len(distinct) {
			c.Distinct("nontrivial", strings.Join(sortedCopy(in), "\x00"))
			c.Count("inputs_with_twin_removed", 1)
		}
		c.Distinct("inputs", strings.Join(in, "\x00"))
		ok := true
		reps := 32
		if len(in) > 1000 {
			reps = 6
		}
		for rep := 0; rep < reps && ok; rep++ {
			ok = c10Construct(c, in, want, fmt.Sprintf("construction %d of the same slice", rep))
		}
		for rep := 0; rep < reps && ok; rep++ {
			perm := c.R.ShuffleStrings(in)
			for m := c.R.Intn(3); m > 0; m-- {
				perm = append(perm, perm[c.R.Intn(len(perm))])
			}
			perm = c.R.ShuffleStrings(perm)
			ok = c10Construct(c, perm, want, fmt.Sprintf("permutation/multiplicity %d", rep))
		}
		if !ok {
			continue
		}
		// atoms of generated passwords
		wl, _ := spg.NewWordList(in)
		titleOrKept := map[string]bool{}
		for _, w := range want {
			titleOrKept[w] = true
			titleOrKept[oracle.Title(w)] = true
		}
		for _, scheme := range schemes {
			rec := spg.NewWLRecipe(c.R.Range(1, 6), wl)
			rec.Capitalize = spg.CapScheme(scheme)
			rec.SeparatorChar = []string{"", "-", "語"}[c.R.Intn(3)]
			s := make([]uint32, 32)
			for i := range s {
				s[i] = c.R.U32()
			}
			s[c.R.Intn(8)] = tape.Last
			g := runGen(*rec, &tape.Tape{Script: s})
			c.Exec(1)
			if g.Pw == nil {
				continue
			}
			for _, a := range g.Pw.Tokens().Atoms() {
				c.Count("atoms_checked", 1)
				if !titleOrKept[a] {
					c.Violate("atom-not-a-kept-word", fmt.Sprintf("list %q scheme %s produced atom %q, neither a kept word nor its title-cased form", in, scheme, a), map[string]interface{}{"input": in, "scheme": scheme, "atom": a})
					return
				}
			}
		}
		if k == 0 && c.Case < 4 {
			c.Sample(map[string]interface{}{"input": in, "kept": want, "constructions": 64})
		}
	}
}

func c10Shipped(c *Ctx, which int) {
	name, list, file := "AgileWords", spg.AgileWords, repoRoot()+"/testdata/agwordlist.txt"
	if which == 1 {
		name, list, file = "AgileSyllables", spg.AgileSyllables, repoRoot()+"/testdata/agsyllables.txt"
	}
	want := oracle.Normalize(list)
	before := append([]string(nil), list...)
	wl, err := spg.NewWordList(list)
	c.Exec(1)
	if err != nil {
		c.Violate("non-empty-list-refused", fmt.Sprintf("NewWordList(%s): %v", name, err), nil)
		return
	}
	if !equalStrings(before, list) {
		c.Violate("caller-slice-modified", "NewWordList modified the shipped list "+name, nil)
		return
	}
	got, rerr := readOutList(wl)
	c.Exec(len(got))
	if rerr != nil {
		c.Violate("read-out-failed", name+": "+rerr.Error(), nil)
		return
	}
	if !equalStrings(sortedCopy(got), want) || int(wl.Size()) != len(want) {
		c.Violate("kept-set-wrong", fmt.Sprintf("%s: %d words kept, Size()=%d, reference keeps %d", name, len(got), wl.Size(), len(want)), nil)
		return
	}
	if b, err := os.ReadFile(file); err == nil {
		if len(strings.Fields(string(b))) != len(want) {
			c.Note(fmt.Sprintf("%s: data file has %d entries, normalised list %d", name, len(strings.Fields(string(b))), len(want)))
		}
	}
	c.Distinct("nontrivial", name)
	c.Distinct("nontrivial", name+"/readout")
	c.Sample(map[string]interface{}{"shipped_list": name, "input_words": len(list), "kept": len(got), "every_index_read_out": true})
}
