package main

import (
	"bytes"
	"context"
	"crypto/rand"
	"encoding/json"
	"errors"
	"fmt"
	"io"
	"math"
	"os"
	"os/exec"
	"path/filepath"
	"regexp"
	"runtime"
	"strconv"
	"strings"
	"sync"
	"sync/atomic"
	"syscall"
	"time"

	spg "go.1password.io/spg"

	"verifharness/explore"
	"verifharness/gen"
	"verifharness/oracle"
	"verifharness/tape"
)

// C09 — all randomness comes from the OS CSPRNG; generation fails closed when it fails.

func c09Counts(tier string) (batches, per, strace int) {
	if tier == "thorough" {
		return 6000, 5, 400
	}
	return 200, 4, 12
}

func init() {
	register(&Prop{
		ID:    "C09",
		Level: "fault_enumeration",
		Rule:  "for every sampled generation (character recipes with and without retries and rejected raw words, wordlist recipes of every scheme with constant / preset / constructed separators incl. the separator call made by Entropy()) the fault-free run gives R reads; then for EVERY read position k in 1..R and every short delivery j in {0,1,2,3} bytes the k-th read fails once, and separately fails from k on; plus re-chunked deliveries (1-3 bytes per read), determinism of (recipe, tape) -> choices within the process, after unrelated calls, from another goroutine and in 2 fresh child processes, support check over complete decision trees, and opgen under strace (bytes delivered by getrandom against the entropy floor of what was printed; every kernel entropy read answered by an untouched buffer: the password must be one choice repeated; k-th kernel entropy read failed by injection). evaluations = generations executed under a tape or strace; distinct_nontrivial = distinct (generation, read position, bytes delivered, sticky) fault points at which the fault was actually hit",
		Assumptions: []string{
			"Go 1.23: crypto/rand.Read = io.ReadFull(rand.Reader); rand.Reader is replaceable (GOTOOLCHAIN=local pins the toolchain)",
			"a read that delivers all requested bytes together with an error counts as success for io.ReadFull and is not injected",
			"word order inside a WordList is fixed per construction: cross-process comparison is made on (word index, capitalised, separator) choice records",
		},
		MinEvals: 2000,
		NumCases: func(tier string, seed uint64) int { b, _, s := c09Counts(tier); return b + s },
		RunCase:  c09Case,
	})
	if len(os.Args) > 1 && os.Args[1] == "c09probe" {
		c09Probe()
	}
}

// c09Gen is one generation to be examined.
type c09Gen struct {
	Kind   string   `json:"kind"` // char | wl
	Char   CharDesc `json:"char,omitempty"`
	WL     *WLCase  `json:"wl,omitempty"`
	Script []uint32 `json:"script"`
	Reject []int    `json:"reject_at,omitempty"`
	RejRun int      `json:"reject_run,omitempty"` // how many rejected raw words in a row precede the accepted one there
	// LocalOnly: the choice record depends on the list's construction order (uncapitalisable words): the
	// generation is compared within this process, not with fresh processes
	LocalOnly bool   `json:"local_only,omitempty"`
	built     *Built // wl only
	rec       spg.CharRecipe
}

func (g *c09Gen) desc() string {
	if g.Kind == "char" {
		return g.Char.String()
	}
	return g.WL.String()
}

func charFromDesc(d CharDesc) spg.CharRecipe {
	return spg.CharRecipe{Length: d.Length, Allow: spg.CTFlag(d.Allow), Require: spg.CTFlag(d.Require), Exclude: spg.CTFlag(d.Exclude),
		AllowChars: d.AllowChars, RequireSets: d.RequireSets, ExcludeChars: d.ExcludeChars}
}

func (g *c09Gen) prepare() error {
	if g.Kind == "char" {
		g.rec = charFromDesc(g.Char)
		return nil
	}
	g.WL.restore()
	b, err := g.WL.Build()
	g.built = b
	return err
}

func (g *c09Gen) tape() *tape.Tape {
	t := &tape.Tape{Script: g.Script, AutoExtend: true, KeepLog: true, MaxDraws: 5000}
	if len(g.Reject) > 0 {
		t.RejectAt = map[int]bool{}
		for _, d := range g.Reject {
			t.RejectAt[d] = true
		}
		t.RejectRun = g.RejRun
	}
	return t
}

func (g *c09Gen) run(t *tape.Tape) GenOut {
	if g.Kind == "char" {
		return runGen(g.rec, t)
	}
	return runGen(*g.built.fresh(*g.WL).Rec, t)
}

// choices turns an outcome into a record that does not depend on the
// construction-time order of the word list.
func (g *c09Gen) choices(o GenOut) string {
	if o.Pw == nil || g.Kind == "char" {
		return outcomeKey(o)
	}
	order, err := readOutList(g.built.List)
	if err != nil {
		return "readout-failed"
	}
	sorted := order // position in this list's own order = the draw index that selects the word
	rank := map[string]int{}
	for i, w := range sorted {
		rank[w] = i
	}
	parts := []string{}
	for _, tk := range o.Pw.Tokens() {
		if tk.Type() == spg.SeparatorType {
			parts = append(parts, "S:"+tk.Value())
			continue
		}
		if i, ok := rank[tk.Value()]; ok {
			parts = append(parts, fmt.Sprintf("W%d", i))
			continue
		}
		found := false
		for _, w := range sorted {
			if oracle.Title(w) == tk.Value() {
				parts = append(parts, fmt.Sprintf("T%d", rank[w]))
				found = true
				break
			}
		}
		if !found {
			parts = append(parts, "?"+tk.Value())
		}
	}
	return strings.Join(parts, " ")
}

func c09Sample(r *gen.R) *c09Gen {
	g := &c09Gen{}
	n := r.Range(8, 40)
	g.Script = make([]uint32, n)
	for i := range g.Script {
		g.Script[i] = r.U32()
	}
	if r.Chance(1, 3) {
		g.Script[r.Intn(n)] = tape.Last
	}
	if r.Chance(1, 2) {
		g.Reject = []int{r.Range(1, 6)}
		g.RejRun = []int{1, 1, 2, 3, 4, 5, 8, 17}[r.Intn(8)]
	}
	switch r.Intn(5) {
	case 0: // no requirement
		g.Kind = "char"
		rec := anyCharRecipe(r, 10)
		rec.Require, rec.RequireSets = 0, nil
		if len(oracle.CharSemOf(rec).Alphabet) == 0 {
			rec.Allow = spg.Digits
		}
		g.Char = descChar(rec)
	case 1: // with retries: the first candidate is forced to miss the requirement
		g.Kind = "char"
		rec := spg.CharRecipe{Length: r.Range(2, 5), Allow: spg.Lowers, RequireSets: []string{"0123456789"}}
		g.Char = descChar(rec)
		for i := 0; i < rec.Length; i++ {
			g.Script[i] = uint32(10 + r.Intn(26)) // sorted alphabet: digits first, then letters
		}
	case 2:
		g.Kind = "char"
		g.Char = descChar(smallCharRecipe(r, 6, 4, 2))
	default:
		g.Kind = "wl"
		w := genWLCase(r, wlOpts{minWords: 2, maxWords: 6, maxLen: 5, twins: false, uncap: false, noReqSep: r.Bool()})
		for try := 0; try < 50 && !oracle.PremiseHolds(oracle.Normalize(w.Words)); try++ {
			w.Words = wlInput(r, 2, 6, false, false) // two entries sharing a title-cased form make the choice record ambiguous
		}
		if r.Chance(1, 3) { // words title-casing does not change: compared within this process only
			w.Words = append(w.Words, []string{"42", "Paris", "語"}[r.Intn(3)])
			w.Scheme = []string{"one", "random", "all"}[r.Intn(3)]
			g.LocalOnly = true
		}
		if w.SepKind == "user" {
			w.SepKind, w.Preset = "preset", "SFDigits1"
		}
		g.WL = &w
	}
	return g
}

var c09Errors = []error{tape.ErrInjected, syscall.EAGAIN, io.ErrUnexpectedEOF, syscall.EINTR, io.EOF, tape.TempError{Msg: "resource temporarily unavailable"}, os.ErrDeadlineExceeded}

func btoi(b bool) int {
	if b {
		return 1
	}
	return 0
}

// seqReader hands out the words 1, 2, 3, ... (4 bytes per read), safe for concurrent use.
type seqReader struct{ n uint32 }

func (s *seqReader) Read(b []byte) (int, error) {
	if len(b) != 4 {
		return 0, tape.ErrExtraRead
	}
	v := atomic.AddUint32(&s.n, 1)
	b[0], b[1], b[2], b[3] = byte(v>>24), byte(v>>16), byte(v>>8), byte(v)
	return 4, nil
}

// c09Conservation: many goroutines draw at once from a source that never repeats a word. The bound is 2^31
// (a power of two: no word is rejected, one read per draw), and what each word maps to is learned first from
// a single-goroutine pass over the same words. Conservation: the concurrent results must be exactly the
// learned images of the words handed out, each used once - no draw built from bytes another draw read, no
// word dropped - and, where the learned mapping is one-to-one, each goroutine must see its words in the order
// the source handed them out.
func c09Conservation(c *Ctx) {
	save := rand.Reader
	spg.VerifOnDraw = nil
	defer func() { rand.Reader = save }()
	const G = 128
	per := 12000
	if c.Thorough() {
		per = 120000
	}
	N := G * per
	// learning pass
	learn := &seqReader{}
	rand.Reader = learn
	image := make([]uint32, N+1)
	for w := 1; w <= N; w++ {
		var r uint32
		ok := func() (ok bool) {
			defer func() {
				if recover() != nil {
					ok = false
				}
			}()
			r = spg.VerifRandomUint32n(1 << 31)
			return true
		}()
		if !ok || int(atomic.LoadUint32(&learn.n)) != w {
			c.Violate("draw-misbehaves-on-a-power-of-two-bound", fmt.Sprintf("single goroutine, bound 2^31, word %d: the draw panicked or did not make exactly one read (source position %d)", w, learn.n), nil)
			return
		}
		image[w] = r
	}
	want := make(map[uint32]int32, N)
	inverse := make(map[uint32]uint32, N)
	for w := 1; w <= N; w++ {
		want[image[w]]++
		inverse[image[w]] = uint32(w)
	}
	injective := len(inverse) == N
	src := &seqReader{}
	rand.Reader = src
	results := make([][]uint32, G)
	var wg sync.WaitGroup
	var panics int32
	for g := 0; g < G; g++ {
		wg.Add(1)
		go func(g int) {
			defer wg.Done()
			defer func() {
				if r := recover(); r != nil {
					atomic.AddInt32(&panics, 1)
				}
			}()
			out := make([]uint32, 0, per)
			for i := 0; i < per; i++ {
				out = append(out, spg.VerifRandomUint32n(1<<31))
				if i%64 == 0 {
					runtime.Gosched()
				}
			}
			results[g] = out
		}(g)
	}
	wg.Wait()
	total := 0
	for g, out := range results {
		total += len(out)
		prev := uint32(0)
		for _, v := range out {
			want[v]--
			if want[v] < 0 {
				c.Violate("draws-share-source-bytes-under-concurrency", fmt.Sprintf("goroutine %d: draw result %d occurs more often than the words handed out can account for (each raw word 1,2,3,... must decide exactly one draw)", g, v), nil)
				return
			}
			if injective {
				w := inverse[v]
				if w <= prev {
					c.Violate("draws-share-source-bytes-under-concurrency", fmt.Sprintf("goroutine %d: draw result %d comes from word %d, which the source handed out before word %d that this goroutine used earlier", g, v, w, prev), nil)
					return
				}
				prev = w
			}
		}
	}
	c.Exec(total + N)
	c.Count("concurrent_conservation_draws", int64(total))
	if panics > 0 || total != int(atomic.LoadUint32(&src.n)) || total != N {
		c.Violate("draws-share-source-bytes-under-concurrency", fmt.Sprintf("%d draws used %d source words (%d goroutines panicked)", total, src.n, panics), nil)
		return
	}
	c.Distinct("nontrivial", "concurrent-conservation")
}

func c09Case(c *Ctx) {
	batches, per, _ := c09Counts(c.Tier)
	if c.Case >= batches {
		c09Strace(c, c.Case-batches)
		return
	}
	if c.Case%50 == 7 {
		defer runtime.GOMAXPROCS(runtime.GOMAXPROCS(16))
		c09Conservation(c)
	}
	var gens []*c09Gen
	var base []string
	for k := 0; k < per; k++ {
		g := c09Sample(c.R)
		if err := g.prepare(); err != nil {
			continue
		}
		t0 := g.tape()
		o0 := g.run(t0)
		c.Exec(1)
		if o0.Panic != nil && !o0.SourcePanic() {
			c.Note("generation panicked without a source fault (C13's business): " + g.desc())
			continue
		}
		key0 := g.choices(o0)
		det := map[string]interface{}{"generation": g.desc(), "script": g.Script, "reads": t0.Reads, "draws": t0.Draws, "bytes": t0.BytesOut}
		// --- rejected raw words are thrown away: with or without them in the stream the choices are those of the
		// accepted words
		if len(g.Reject) > 0 && o0.Pw != nil && t0.Rejected > 0 {
			t1 := &tape.Tape{Script: g.Script, AutoExtend: true, MaxDraws: 5000}
			o1 := g.run(t1)
			c.Exec(1)
			c.Count("generations_compared_with_and_without_rejected_words", 1)
			if k1 := g.choices(o1); k1 != key0 {
				det["rejected_words_in_a_row"] = g.RejRun
				c.Violate("rejected-raw-words-decide-a-choice", fmt.Sprintf("%s: with %d rejected raw word(s) in front of the accepted word of draw %v the choices are %s; without them %s", g.desc(), g.RejRun, g.Reject, abbreviate(key0), abbreviate(k1)), det)
				continue
			}
		}
		// --- 2. every choice is derived from the tape
		if o0.Pw != nil {
			if t0.BytesOut < 4*t0.Draws-4*t0.Rejected {
				c.Violate("draw-without-entropy", fmt.Sprintf("%s: %d draws announced but only %d bytes consumed", g.desc(), t0.Draws, t0.BytesOut), det)
				continue
			}
			multi := g.Kind == "wl" && (len(g.built.Kept) > 1) || g.Kind == "char" && len(oracle.CharSemOf(g.rec).Alphabet) > 1
			if multi && t0.BytesOut == 0 {
				c.Violate("password-without-entropy", fmt.Sprintf("%s returned a password without reading the random source", g.desc()), det)
				continue
			}
		}
		// --- 1. determinism in the tape, and in nothing else
		for variant := 0; variant < 3; variant++ {
			if variant == 1 { // unrelated calls in between
				other := spg.NewCharRecipe(12)
				other.Generate()
				dig := spg.CharRecipe{Length: 3, Allow: spg.Digits}
				dig.Entropy()
				if wl, err := spg.NewWordList([]string{"x", "y", "z"}); err == nil {
					wr := spg.NewWLRecipe(2, wl)
					wr.Generate()
				}
			}
			t1 := g.tape()
			var o1 GenOut
			if variant == 2 { // another goroutine
				done := make(chan struct{})
				go func() { defer close(done); o1 = g.run(t1) }()
				<-done
			} else {
				o1 = g.run(t1)
			}
			c.Exec(1)
			if k1 := g.choices(o1); k1 != key0 || t1.Reads != t0.Reads || t1.BytesOut != t0.BytesOut {
				c.Violate("not-a-function-of-the-tape", fmt.Sprintf("%s: same recipe and source bytes gave %s (%d reads) and then %s (%d reads) [variant %d]", g.desc(), key0, t0.Reads, k1, t1.Reads, variant), det)
				break
			}
		}
		// --- 3. chunking
		for v := 0; v < 3; v++ {
			t2 := g.tape()
			t2.Chunk = [][]int{{1}, {2, 1, 3}, {3, 1, 1, 2, 4}}[v]
			if v == 2 {
				t2.Chunk = []int{c.R.Range(1, 3), c.R.Range(1, 4), c.R.Range(1, 3)}
			}
			o2 := g.run(t2)
			c.Exec(1)
			c.Count("chunked_runs", 1)
			if k2 := g.choices(o2); k2 != key0 || t2.BytesOut != t0.BytesOut {
				c.Violate("depends-on-chunking", fmt.Sprintf("%s: delivering the same bytes in chunks %v gave %s (%d bytes) instead of %s (%d bytes)", g.desc(), t2.Chunk, k2, t2.BytesOut, key0, t0.BytesOut), det)
				break
			}
		}
		// --- 4. fault at every read
		R := t0.Reads
		if R > 400 {
			R = 400
		}
		bad := false
		for k := 1; k <= R && !bad; k++ {
			for j := 0; j <= 3 && !bad; j++ {
				for _, sticky := range []bool{false, true} {
					tf := g.tape()
					tf.FaultAt, tf.FaultBytes, tf.FaultStick = k, j, sticky
					// the kind of error varies with the fault point: plain, EOF-like, and errors that call themselves temporary
					tf.FaultErr = c09Errors[(k+2*j+btoi(sticky))%len(c09Errors)]
					var of GenOut
					tripped := false
					func() {
						defer func() {
							if r := recover(); r != nil {
								tape.Restore()
								tripped = fmt.Sprint(r) == tape.ContinuedAfterFailure
								of = GenOut{Panic: r}
							}
						}()
						of = g.run(tf)
					}()
					c.Exec(1)
					if !tf.FaultHit {
						c.Count("fault_points_not_reached", 1)
						continue
					}
					c.Count("fault_points_hit", 1)
					c.Distinct("nontrivial", fmt.Sprintf("%s|%v|%d|%d|%v", g.desc(), g.Script[:4], k, j, sticky))
					fdet := map[string]interface{}{"generation": g.desc(), "script": g.Script, "fault_at_read": k, "bytes_delivered": j, "sticky": sticky, "reads_after_fault": tf.ReadsAfterFault, "error_returned_by_source": fmt.Sprintf("%T: %v", tf.FaultErr, tf.FaultErr)}
					c.Distinct("error_kinds", fmt.Sprintf("%T%v", tf.FaultErr, tf.FaultErr))
					switch {
					case of.Pw != nil:
						c.Violate("password-after-source-failure", fmt.Sprintf("%s: read %d of %d delivered %d bytes and an error, yet Generate returned password %q", g.desc(), k, t0.Reads, j, of.Pw.String()), fdet)
						bad = true
					case tripped || (sticky && tf.ReadsAfterFault > 8):
						c.Violate("reads-on-after-source-failure", fmt.Sprintf("%s: after the source failed at read %d the generator read %d more times", g.desc(), k, tf.ReadsAfterFault), fdet)
						bad = true
					case of.Panic == nil && of.Err == nil:
						c.Violate("nil-result-after-source-failure", fmt.Sprintf("%s: (nil, nil) after a source failure", g.desc()), fdet)
						bad = true
					}
					if bad {
						break
					}
					// the caller recovered from the failure and carries on: the next generation from the same
					// bytes must be what it was before the failure (nothing left behind by the aborted call)
					if !sticky && (k+j)%2 == 0 {
						tc := g.tape()
						oc := g.run(tc)
						c.Exec(1)
						c.Count("clean_generations_after_a_fault", 1)
						if kc := g.choices(oc); kc != key0 || tc.Reads != t0.Reads {
							c.Violate("aborted-generation-affects-the-next", fmt.Sprintf("%s: after a generation aborted by a source failure at read %d, the same recipe and source bytes give %s (%d reads) instead of %s (%d reads)", g.desc(), k, kc, tc.Reads, key0, t0.Reads), fdet)
							bad = true
							break
						}
					}
				}
			}
		}
		if !bad {
			c.Count("generations_fault_enumerated", 1)
			c.Max("max_reads_in_a_generation", int64(t0.Reads))
		}
		gens = append(gens, g)
		base = append(base, key0)
		if k == 0 && c.Case < 3 {
			det["outcome"] = key0
			det["fault_points"] = R * 8
			c.Sample(det)
		}
	}
	// --- 1c. two fresh processes
	if len(gens) > 0 {
		self, err := os.Executable()
		if err != nil {
			c.Inconclusive("cannot find own executable")
			return
		}
		payload, _ := json.Marshal(gens)
		for proc := 0; proc < 2; proc++ {
			cmd := exec.Command(self, "c09probe")
			cmd.Stdin = bytes.NewReader(payload)
			out, err := cmd.Output()
			if err != nil {
				c.Inconclusive(fmt.Sprintf("child process failed: %v", err))
				return
			}
			var keys []string
			if json.Unmarshal(out, &keys) != nil || len(keys) != len(gens) {
				c.Inconclusive("child output unreadable")
				return
			}
			c.Exec(len(keys))
			c.Count("fresh_process_replays", int64(len(keys)))
			for i := range gens {
				if gens[i].LocalOnly {
					continue
				}
				if keys[i] != base[i] {
					c.Violate("not-a-function-of-the-tape", fmt.Sprintf("%s: same recipe and source bytes gave %s here and %s in a fresh process", gens[i].desc(), base[i], keys[i]),
						map[string]interface{}{"generation": gens[i].desc(), "script": gens[i].Script})
				}
			}
		}
	}
	// --- 2b. support over a complete cell (one small recipe per case)
	rec := smallCharRecipe(c.R, 5, 3, 0)
	rec.Require, rec.RequireSets = 0, nil // no requirement: every candidate is a password and the recipe is never refused
	sem := oracle.CharSemOf(rec)
	if len(sem.Alphabet) > 0 {
		valid, _ := sem.EnumerateValid(100000)
		res := exploreGen(rec, explore.Limits{MaxLeaves: 20000}, nil)
		c.Exec(res.Leaves)
		outs := 0
		for key := range res.Mass {
			if strings.HasPrefix(key, "PW:") {
				outs++
			}
		}
		if res.Complete && outs != len(valid) {
			c.Violate("choices-not-reached-by-varying-the-tape", fmt.Sprintf("recipe %s: all index scripts together reach %d outputs, the recipe offers %d", descChar(rec), outs, len(valid)), nil)
		}
		c.Count("complete_cells", 1)
	}
}

func c09Probe() {
	var gens []*c09Gen
	if err := json.NewDecoder(os.Stdin).Decode(&gens); err != nil {
		os.Exit(2)
	}
	null, _ := os.OpenFile(os.DevNull, os.O_WRONLY, 0)
	stdout := os.Stdout
	os.Stdout = null
	keys := make([]string, len(gens))
	for i, g := range gens {
		if err := g.prepare(); err != nil {
			keys[i] = "prepare-failed"
			continue
		}
		keys[i] = g.choices(g.run(g.tape()))
	}
	os.Stdout = stdout
	json.NewEncoder(os.Stdout).Encode(keys)
	os.Exit(0)
}

// ---------------------------------------------------------------------------
// system level: opgen under strace

// strace -f splits a call that is interrupted by another thread's activity into "getrandom( <unfinished ...>"
// and "<... getrandom resumed>"...", 4, 0) = 4": both spellings of a completed 4-byte request are counted
var reGetrandom4 = regexp.MustCompile(`(?:getrandom\(|getrandom resumed>)(?:"[^"]*"|0x[0-9a-f]+), 4, 0\)\s+= (-?\d+)`)

func c09Strace(c *Ctx, k int) {
	opgen := os.Getenv("VCHECK_OPGEN")
	if opgen == "" {
		c.Inconclusive("VCHECK_OPGEN not set")
		return
	}
	if _, err := exec.LookPath("strace"); err != nil {
		c.Inconclusive("strace not available")
		return
	}
	var args []string
	units := 0
	wordsFile := ""
	switch k % 3 {
	case 0:
		units = c.R.Range(4, 24)
		args = []string{"characters", fmt.Sprintf("--length=%d", units)}
	case 1:
		units = c.R.Range(2, 6)
		args = []string{"words", fmt.Sprintf("--size=%d", units), "--separator=" + []string{"hyphen", "digit", "none"}[c.R.Intn(3)], "--capitalize=" + schemes[c.R.Intn(5)]}
	default:
		units = c.R.Range(2, 5)
		wordsFile = filepath.Join(c.Dir, fmt.Sprintf("c09-words-%d.txt", c.Case))
		os.WriteFile(wordsFile, []byte("alpha\nbeta\ngamma\ndelta\nepsilon\n"), 0o644)
		args = []string{"words", "--file=" + wordsFile, fmt.Sprintf("--size=%d", units), "--separator=digit"}
	}
	run := func(inject []string) (stdout, stderr string, exit int, log string, err error) {
		logf := filepath.Join(c.Dir, fmt.Sprintf("c09-strace-%d-%d.log", c.Case, c.R.U32()))
		a := append([]string{"-f", "-o", logf, "-e", "trace=getrandom,openat,read"}, inject...)
		a = append(a, opgen)
		a = append(a, args...)
		// the watchdog only ends runs that cannot end by themselves (a stream of untouched buffers may be one the
		// bounded draw rejects for ever); a run it ends is set aside, never judged
		ctx, cancel := context.WithTimeout(context.Background(), 60*time.Second)
		defer cancel()
		cmd := exec.CommandContext(ctx, "strace", a...)
		cmd.SysProcAttr = &syscall.SysProcAttr{Setpgid: true} // strace and the traced opgen end together
		cmd.Cancel = func() error { return syscall.Kill(-cmd.Process.Pid, syscall.SIGKILL) }
		var so, se bytes.Buffer
		cmd.Stdout, cmd.Stderr = &so, &se
		e := cmd.Run()
		if ctx.Err() != nil {
			os.Remove(logf)
			return "", "", 0, "", errWatchdog
		}
		exit = 0
		if ee, ok := e.(*exec.ExitError); ok {
			exit = ee.ExitCode()
		} else if e != nil {
			return "", "", 0, "", e
		}
		b, _ := os.ReadFile(logf)
		os.Remove(logf)
		return so.String(), se.String(), exit, string(b), nil
	}
	so, se, exit, log, err := run(nil)
	c.Exec(1)
	if err != nil {
		c.Inconclusive("strace failed: " + err.Error())
		return
	}
	if strings.Contains(se, "ptrace") || strings.Contains(se, "Operation not permitted") {
		c.Inconclusive("strace cannot attach: " + se)
		return
	}
	det := map[string]interface{}{"argv": args, "exit": exit, "stdout_lines": strings.Count(so, "\n")}
	n4 := len(reGetrandom4.FindAllString(log, -1))
	det["getrandom_4_byte_calls"] = n4
	if exit != 0 {
		c.Note(fmt.Sprintf("fault-free opgen run exited %d: %s", exit, se))
		return
	}
	// Conservation at the kernel boundary, in a form that does not depend on how the library sizes or batches
	// its reads: the bytes the kernel delivered must carry at least the entropy of what was printed (a very
	// conservative floor: log2(10) bits per character, log2(5) per word).
	sizes := map[int]int{}
	total := 0
	for _, m := range reGetrandomAny.FindAllStringSubmatch(log, -1) {
		req, _ := strconv.Atoi(m[1])
		got, _ := strconv.Atoi(m[2])
		if got > 0 {
			total += got
			sizes[req]++
		}
	}
	det["getrandom_bytes_delivered"] = total
	floorBits := float64(units) * math.Log2(10)
	if args[0] == "words" {
		floorBits = float64(units) * math.Log2(5)
	}
	if float64(total*8) < floorBits {
		c.Violate("too-few-kernel-entropy-bytes", fmt.Sprintf("opgen %v printed a password of at least %.1f bits but the kernel delivered only %d random bytes", args, floorBits, total), det)
		return
	}
	c.Count("units_with_fewer_4_byte_reads_than_units(informational)", int64(b2i(n4 < units)))
	// Same source bytes, same choices - at the kernel boundary: every entropy request answered "delivered" with the
	// buffer left untouched (all zero). Every bounded draw then sees the same raw word, so within one password
	// every character (every word) must be the same one; any other source of choice (clock, pid, math/rand, map
	// order used as a die) shows up as a position that differs. Only attempted when all requests have one size.
	if len(sizes) == 1 {
		req := 0
		for k := range sizes {
			req = k
		}
		so0, se0, exit0, log0, err0 := run([]string{"-e", fmt.Sprintf("inject=getrandom:retval=%d", req)})
		c.Exec(1)
		inj := strings.Count(log0, "(INJECTED)")
		switch {
		case err0 == errWatchdog:
			c.Count("strace_zero_entropy_runs_that_never_accept_the_zero_word", 1)
		case err0 != nil || inj == 0:
			c.Count("strace_zero_entropy_not_effective", 1)
		case exit0 != 0:
			c.Count("strace_zero_entropy_runs_refused", 1) // e.g. a requirement no constant stream can meet
			_ = se0
		default:
			c.Count("strace_zero_entropy_runs", 1)
			c.Distinct("nontrivial", fmt.Sprintf("strace-zero|%v", args))
			line := strings.TrimRight(so0, "\n")
			if bad := zeroEntropyMismatch(args[0], line, units); bad != "" {
				c.Violate("choices-not-determined-by-kernel-entropy", fmt.Sprintf("opgen %v with every kernel entropy read answered by zeros printed %q: %s", args, line, bad),
					map[string]interface{}{"argv": args, "stdout": so0, "injected_reads": inj})
				return
			}
		}
	}
	// no file other than the word list (and runtime files) is read
	for _, line := range strings.Split(log, "\n") {
		if strings.Contains(line, "openat(") && !strings.Contains(line, "ENOENT") {
			ok := strings.Contains(line, "/sys/kernel/mm/transparent_hugepage") || strings.Contains(line, "/dev/urandom") ||
				(wordsFile != "" && strings.Contains(line, wordsFile)) || strings.Contains(line, "/etc/localtime") || strings.Contains(line, "/proc/")
			if !ok {
				c.Violate("unexpected-file-read", fmt.Sprintf("opgen %v opened an unexpected file: %s", args, strings.TrimSpace(line)), det)
				return
			}
		}
	}
	c.Count("strace_fault_free_runs", 1)
	c.Count("getrandom_calls_observed", int64(n4))
	// ordinal of the /dev/urandom open: one more than the opens seen in the fault-free run
	opens := strings.Count(log, "openat(")
	ks := []int{1, n4}
	if n4 > 2 {
		ks = append(ks, c.R.Range(2, n4-1))
	}
	if c.Thorough() {
		ks = ks[:0]
		for i := 1; i <= n4; i++ {
			ks = append(ks, i)
		}
	}
	for _, kk := range ks {
		so, se, exit, log, err := run([]string{"-e", fmt.Sprintf("inject=getrandom:error=EIO:when=%d+", kk), "-e", fmt.Sprintf("inject=openat:error=EACCES:when=%d+", opens+1)})
		c.Exec(1)
		if err != nil {
			c.Inconclusive("strace failed: " + err.Error())
			return
		}
		// strace counts when= per thread: judge only runs whose log shows an entropy read that
		// failed by injection AND the /dev/urandom fallback blocked as well
		injGR, urOK, urInj := false, false, false
		for _, line := range strings.Split(log, "\n") {
			if strings.Contains(line, "getrandom(") && strings.Contains(line, "(INJECTED)") {
				injGR = true
			}
			if strings.Contains(line, "/dev/urandom") {
				if strings.Contains(line, "(INJECTED)") {
					urInj = true
				} else if !strings.Contains(line, "= -1") {
					urOK = true
				}
			}
		}
		if !injGR || !urInj || urOK {
			c.Count("strace_injection_not_effective", 1)
			continue
		}
		c.Count("strace_injected_runs", 1)
		c.Distinct("nontrivial", fmt.Sprintf("strace|%v|%d", args, kk))
		if exit == 0 || strings.TrimSpace(so) != "" {
			c.Violate("opgen-survives-entropy-failure", fmt.Sprintf("opgen %v with the %d-th kernel entropy read failing: exit %d, stdout %q", args, kk, exit, so),
				map[string]interface{}{"argv": args, "failed_read": kk, "exit": exit, "stdout": so, "stderr_head": head(se, 300)})
			return
		}
	}
	if k < 2 {
		c.Sample(det)
	}
}

var errWatchdog = errors.New("watchdog")

// reGetrandomAny matches a completed getrandom of any size: groups = bytes requested, bytes delivered
var reGetrandomAny = regexp.MustCompile(`(?:getrandom\(|getrandom resumed>)(?:"[^"]*"(?:\.\.\.)?|0x[0-9a-f]+), (\d+), (?:0|GRND_\w+)\)\s+= (-?\d+)`)

func b2i(b bool) int {
	if b {
		return 1
	}
	return 0
}

// zeroEntropyMismatch says why a password printed under an all-zero entropy stream is not "the same choice at
// every position", or "" if it is. Separators (digits, hyphens) and capitalisation are set aside: separator
// alphabets are legitimately rebuilt per call and one-word capitalisation legitimately singles out word 0.
func zeroEntropyMismatch(kind, line string, units int) string {
	if kind == "characters" {
		rs := []rune(line)
		if len(rs) != units {
			return fmt.Sprintf("%d characters instead of %d", len(rs), units)
		}
		for i, r := range rs {
			if r != rs[0] {
				return fmt.Sprintf("position %d holds %q, position 0 holds %q although both draws saw the same raw bytes", i, r, rs[0])
			}
		}
		return ""
	}
	var b strings.Builder
	for _, r := range strings.ToLower(line) {
		if (r >= '0' && r <= '9') || r == '-' {
			continue
		}
		b.WriteRune(r)
	}
	w := b.String()
	if units == 0 || len(w)%units != 0 || w != strings.Repeat(w[:len(w)/units], units) {
		return fmt.Sprintf("the %d words are not one word repeated although every draw saw the same raw bytes", units)
	}
	return ""
}

func head(s string, n int) string {
	if len(s) > n {
		return s[:n]
	}
	return s
}
