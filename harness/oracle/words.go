package oracle

import (
	"sort"
	"strings"
	"unicode/utf8"
)

// Title is the title-casing the word-list documentation refers to.
func Title(w string) string { return strings.Title(w) }

// Normalize is the documented normalisation of a word list: one copy of each
// distinct word, minus every word that is the title-cased form of another
// listed word. The result is sorted.
func Normalize(input []string) []string {
	present := map[string]bool{}
	for _, w := range input {
		present[w] = true
	}
	drop := map[string]bool{}
	for w := range present {
		t := Title(w)
		if t != w && present[t] {
			drop[t] = true
		}
	}
	out := []string{}
	for w := range present {
		if !drop[w] {
			out = append(out, w)
		}
	}
	sort.Strings(out)
	return out
}

// AllCapitalizable reports whether every kept word changes under title-casing.
func AllCapitalizable(kept []string) bool {
	for _, w := range kept {
		if Title(w) == w {
			return false
		}
	}
	return true
}

// PremiseHolds is the premise of C04/C06: no two kept entries share a
// title-cased form (after normalisation, no kept word is the title form of
// another kept word and no two have the same title form).
func PremiseHolds(kept []string) bool {
	seen := map[string]bool{}
	for _, w := range kept {
		t := Title(w)
		if seen[t] {
			return false
		}
		seen[t] = true
	}
	return true
}

// CharCount is the number of characters of a token value as the token index
// counts them: code points, every invalid byte counting as one.
func CharCount(s string) int { return utf8.RuneCountInString(s) }

// SplitChars splits bytewise-faithfully into characters (invalid bytes are
// single characters), so that joining the pieces gives s back exactly.
func SplitChars(s string) []string {
	out := []string{}
	for len(s) > 0 {
		_, size := utf8.DecodeRuneInString(s)
		out = append(out, s[:size])
		s = s[size:]
	}
	return out
}

// Tok is a reference token: value and type byte (1 = atom, 0 = separator).
type Tok struct {
	V string
	T byte
}

// ExpectedIndexLen is the documented size of the token index of a sequence
// whose tokens all have 1..255 characters.
func ExpectedIndexLen(ts []Tok) int {
	if len(ts) == 0 {
		return 0
	}
	allAtoms, allOne := true, true
	for _, t := range ts {
		if t.T != 1 {
			allAtoms = false
		}
		if CharCount(t.V) != 1 {
			allOne = false
		}
	}
	if allAtoms && allOne {
		return 1
	}
	if allAtoms {
		return 1 + len(ts)
	}
	alt := len(ts)%2 == 1
	for i, t := range ts {
		if (i%2 == 0 && t.T != 1) || (i%2 == 1 && t.T != 0) {
			alt = false
		}
	}
	if alt {
		return 1 + len(ts)
	}
	return 1 + 2*len(ts)
}

// RefTokenize is the decoder specification: ok=false means the index must be
// refused with an error. For kind 0 any trailing index bytes are ignored.
func RefTokenize(pw string, idx []byte) (ts []Tok, ok bool) {
	if len(idx) == 0 {
		return nil, false
	}
	chars := SplitChars(pw)
	pos := 0
	take := func(n int) (string, bool) {
		if pos+n > len(chars) {
			return "", false
		}
		v := strings.Join(chars[pos:pos+n], "")
		pos += n
		return v, true
	}
	switch idx[0] {
	case 0:
		for _, c := range chars {
			ts = append(ts, Tok{c, 1})
		}
		return ts, true
	case 1, 2:
		for i, l := range idx[1:] {
			v, ok := take(int(l))
			if !ok {
				return nil, false
			}
			t := byte(1)
			if idx[0] == 2 && i%2 == 1 {
				t = 0
			}
			ts = append(ts, Tok{v, t})
		}
		return ts, true
	case 3:
		body := idx[1:]
		if len(body)%2 != 0 {
			return nil, false
		}
		for i := 0; i < len(body); i += 2 {
			v, ok := take(int(body[i]))
			if !ok {
				return nil, false
			}
			ts = append(ts, Tok{v, body[i+1]})
		}
		return ts, true
	}
	return nil, false
}
