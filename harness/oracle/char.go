// Package oracle holds the reference models the monitors compare the real
// library against. They are written from the documented behaviour of spg
// (README, doc.go, field comments, usage text), use only public fields, and
// share no code with the implementation.
package oracle

import (
	"math"
	"math/big"
	"sort"
	"strings"
	"unicode/utf8"

	spg "go.1password.io/spg"
)

// Documented character classes, written out again on purpose.
const (
	Upper     = "ABCDEFGHIJKLMNOPQRSTUVWXYZ"
	Lower     = "abcdefghijklmnopqrstuvwxyz"
	Digit     = "0123456789"
	Symbol    = "!@.-_*"
	Ambiguous = "0O1Il5S"
)

// Flag bits in documentation order: Uppers, Lowers, Digits, Symbols, Ambiguous.
var classByBit = []string{Upper, Lower, Digit, Symbol, Ambiguous}

// ClassString expands a flag value into the characters of all its classes.
func ClassString(f spg.CTFlag) string {
	var b strings.Builder
	for bit, s := range classByBit {
		if uint32(f)&(1<<uint(bit)) != 0 {
			b.WriteString(s)
		}
	}
	return b.String()
}

// Chars splits a string into its characters (Unicode code points).
func Chars(s string) []string {
	// bytewise faithful: a byte that is not part of a valid UTF-8 sequence is a character of its own (this is
	// how a string is split into "characters" everywhere in the library's documentation-by-example: Latin-1
	// bytes stay what they are), so joining the pieces always gives the string back
	out := make([]string, 0, len(s))
	for len(s) > 0 {
		_, size := utf8.DecodeRuneInString(s)
		out = append(out, s[:size])
		s = s[size:]
	}
	return out
}

func setOf(s string) map[string]bool {
	m := map[string]bool{}
	for _, c := range Chars(s) {
		m[c] = true
	}
	return m
}

func sortedKeys(m map[string]bool) []string {
	out := make([]string, 0, len(m))
	for k := range m {
		out = append(out, k)
	}
	sort.Strings(out)
	return out
}

// CharSem is the meaning of a character recipe according to its public fields.
type CharSem struct {
	Length   int
	Alphabet []string        // sorted, duplicate-free
	In       map[string]bool // membership in Alphabet
	Excluded map[string]bool
	Req      [][]string // every required set (custom strings in order, then classes) minus excluded characters; may be empty
	ReqLive  [][]string // the non-empty ones
	Emptied  int        // required sets that exclusion (or being empty to begin with... no: only non-empty inputs) emptied
}

// CharSemOf computes the reference semantics of r.
func CharSemOf(r spg.CharRecipe) CharSem {
	s := CharSem{Length: r.Length}
	s.Excluded = setOf(r.ExcludeChars + ClassString(r.Exclude))
	alpha := map[string]bool{}
	for c := range setOf(r.AllowChars + ClassString(r.Allow)) {
		if !s.Excluded[c] {
			alpha[c] = true
		}
	}
	addReq := func(str string) {
		if str == "" {
			return
		}
		m := map[string]bool{}
		for c := range setOf(str) {
			if !s.Excluded[c] {
				m[c] = true
				alpha[c] = true
			}
		}
		set := sortedKeys(m)
		s.Req = append(s.Req, set)
		if len(set) > 0 {
			s.ReqLive = append(s.ReqLive, set)
		} else {
			s.Emptied++
		}
	}
	for _, str := range r.RequireSets {
		addReq(str)
	}
	for bit, cls := range classByBit {
		if uint32(r.Require)&(1<<uint(bit)) != 0 {
			addReq(cls)
		}
	}
	s.Alphabet = sortedKeys(alpha)
	s.In = alpha
	return s
}

// AlphabetString is the sorted alphabet as one string.
func (s CharSem) AlphabetString() string { return strings.Join(s.Alphabet, "") }

// Valid reports whether the character sequence is a password the recipe allows.
func (s CharSem) Valid(chars []string) bool {
	if len(chars) != s.Length || s.Length < 1 {
		return false
	}
	for _, c := range chars {
		if !s.In[c] {
			return false
		}
	}
	return s.MeetsReq(chars)
}

// MeetsReq reports whether every live required set is hit.
func (s CharSem) MeetsReq(chars []string) bool {
	for _, set := range s.ReqLive {
		hit := false
		for _, c := range chars {
			i := sort.SearchStrings(set, c)
			if i < len(set) && set[i] == c {
				hit = true
				break
			}
		}
		if !hit {
			return false
		}
	}
	return true
}

// Count is the exact number of valid passwords of length L, by
// inclusion-exclusion over the live required sets:
// sum over T subset of Req of (-1)^|T| * |Alphabet - union(T)|^L.
func (s CharSem) Count(L int) *big.Int {
	k := len(s.ReqLive)
	total := new(big.Int)
	if L < 1 {
		return total
	}
	bl := big.NewInt(int64(L))
	for mask := 0; mask < 1<<uint(k); mask++ {
		removed := map[string]bool{}
		bits := 0
		for j := 0; j < k; j++ {
			if mask&(1<<uint(j)) != 0 {
				bits++
				for _, c := range s.ReqLive[j] {
					removed[c] = true
				}
			}
		}
		term := new(big.Int).Exp(big.NewInt(int64(len(s.Alphabet)-len(removed))), bl, nil)
		if bits%2 == 0 {
			total.Add(total, term)
		} else {
			total.Sub(total, term)
		}
	}
	return total
}

// Total is |Alphabet|^L.
func (s CharSem) Total(L int) *big.Int {
	if L < 1 {
		return new(big.Int)
	}
	return new(big.Int).Exp(big.NewInt(int64(len(s.Alphabet))), big.NewInt(int64(L)), nil)
}

// Brute counts valid passwords by enumerating Alphabet^L. ok is false when the
// space is larger than limit.
func (s CharSem) Brute(L int, limit int64) (count int64, ok bool) {
	a := int64(len(s.Alphabet))
	if L < 1 || a == 0 {
		return 0, true
	}
	space := int64(1)
	for i := 0; i < L; i++ {
		space *= a
		if space > limit {
			return 0, false
		}
	}
	// per character: bit mask of live required sets it belongs to
	masks := make([]uint32, a)
	for i, c := range s.Alphabet {
		for j, set := range s.ReqLive {
			k := sort.SearchStrings(set, c)
			if k < len(set) && set[k] == c {
				masks[i] |= 1 << uint(j)
			}
		}
	}
	full := uint32(1)<<uint(len(s.ReqLive)) - 1
	idx := make([]int64, L)
	for {
		var m uint32
		for _, i := range idx {
			m |= masks[i]
		}
		if m == full {
			count++
		}
		p := L - 1
		for p >= 0 {
			idx[p]++
			if idx[p] < a {
				break
			}
			idx[p] = 0
			p--
		}
		if p < 0 {
			break
		}
	}
	return count, true
}

// EnumerateValid lists every valid password (as a string) for small recipes.
func (s CharSem) EnumerateValid(limit int64) (out []string, ok bool) {
	a := int64(len(s.Alphabet))
	L := s.Length
	if L < 1 || a == 0 {
		return nil, true
	}
	space := int64(1)
	for i := 0; i < L; i++ {
		space *= a
		if space > limit {
			return nil, false
		}
	}
	idx := make([]int64, L)
	chars := make([]string, L)
	for {
		for p, i := range idx {
			chars[p] = s.Alphabet[i]
		}
		if s.MeetsReq(chars) {
			out = append(out, strings.Join(chars, ""))
		}
		p := L - 1
		for p >= 0 {
			idx[p]++
			if idx[p] < a {
				break
			}
			idx[p] = 0
			p--
		}
		if p < 0 {
			break
		}
	}
	return out, true
}

// Log2Big returns log2 of a positive big integer as a float64 computed with
// 200-bit arithmetic for the mantissa (accurate far beyond float32).
func Log2Big(n *big.Int) float64 {
	if n.Sign() <= 0 {
		if n.Sign() == 0 {
			return math.Inf(-1)
		}
		return math.NaN()
	}
	f := new(big.Float).SetPrec(200).SetInt(n)
	mant := new(big.Float).SetPrec(200)
	exp := f.MantExp(mant) // f = mant * 2^exp, mant in [0.5,1)
	m, _ := mant.Float64()
	return math.Log2(m) + float64(exp)
}

// Log2Rat returns log2 of a positive rational.
func Log2Rat(r *big.Rat) float64 {
	if r.Sign() <= 0 {
		if r.Sign() == 0 {
			return math.Inf(-1)
		}
		return math.NaN()
	}
	return Log2Big(r.Num()) - Log2Big(r.Denom())
}

// Ulp32 is the distance from |x| to the next float32 above it (x finite).
func Ulp32(x float64) float64 {
	f := float32(math.Abs(x))
	if math.IsInf(float64(f), 0) || math.IsNaN(float64(f)) {
		return math.Inf(1)
	}
	next := math.Nextafter32(f, float32(math.Inf(1)))
	return float64(next) - float64(f)
}
