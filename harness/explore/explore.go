// Package explore drives a generation once per leaf of its decision tree
// (stateless, odometer order) and accumulates the exact probability mass of
// every observed outcome, given that each bounded draw is uniform (C01).
package explore

import (
	"math/big"

	"verifharness/tape"
)

// Outcome is what one execution produced.
type Outcome struct {
	Key     string      // canonical encoding of the observable result
	Payload interface{} // kept for the first execution reaching Key
}

// Limits bound an exploration. They decide how much is explored, never the verdict.
type Limits struct {
	MaxLeaves int   // executions
	MaxDraws  int   // draws per execution; deeper paths count as unresolved mass
	MaxWork   int64 // draws over all executions (0: no limit); what is left when it is spent counts as unresolved
	// Hostile: the source behaves like any io.Reader and like a source that fails now and then. Every third
	// leaf is delivered in chunks of 1-3 bytes, and before every fifth leaf an auxiliary execution with the
	// same script is aborted by a failing read (the caller recovers the panic). Neither may change any leaf.
	Hostile bool
}

// Result of an exploration.
type Result struct {
	Mass       map[string]*big.Rat
	Payload    map[string]interface{}
	Leaves     int           // completed executions
	Cuts       int           // executions cut by MaxDraws
	AuxRuns    int           // auxiliary fault-aborted executions interleaved (Hostile)
	Unresolved *big.Rat      // probability mass of paths not run to completion
	Complete   bool          // Unresolved == 0
	MaxDepth   int           // longest path (draws)
	Draws      int64         // total draws announced
	Anomalies  []string      // tape anomalies (extra reads, learn failures)
	LastPaths  [][]tape.Step // a few sample paths
}

// Run explores run's decision tree. run must install the tape it is given,
// execute the code under test, recover its panics and describe the outcome.
// If the tape reports Cut the outcome is ignored.
func Run(lim Limits, run func(t *tape.Tape) Outcome) *Result {
	res := &Result{Mass: map[string]*big.Rat{}, Payload: map[string]interface{}{}, Unresolved: new(big.Rat)}
	resolved := new(big.Rat)
	one := big.NewRat(1, 1)
	script := []uint32{}
	lastReads := 0
	var lastScript []uint32
	for {
		if (lim.MaxLeaves > 0 && res.Leaves+res.Cuts >= lim.MaxLeaves) || (lim.MaxWork > 0 && res.Draws >= lim.MaxWork) {
			// everything not yet visited is unresolved
			rest := new(big.Rat).Sub(one, resolved)
			rest.Sub(rest, res.Unresolved)
			res.Unresolved.Add(res.Unresolved, rest)
			break
		}
		n := res.Leaves + res.Cuts
		if lim.Hostile && n%3 == 1 && lastReads > 0 {
			// the fault position cycles through the reads of a generation, late reads (most of the call's
			// work done, most of its scratch state dirty) every other time
			at := 1 + (n/3)%lastReads
			if (n/3)%2 == 0 {
				at = lastReads - (n/6)%3
				if at < 1 {
					at = 1
				}
			}
			// the aborted call replays the previous leaf's choices, so that it gets as far as that leaf did
			aux := &tape.Tape{Script: lastScript, AutoExtend: true, MaxDraws: lim.MaxDraws, Aux: true,
				FaultAt: at, FaultBytes: (n / 3) % 4, FaultStick: n%2 == 0}
			run(aux)
			res.AuxRuns++
		}
		t := &tape.Tape{Script: script, AutoExtend: true, MaxDraws: lim.MaxDraws}
		if lim.Hostile && n%3 == 2 {
			t.Chunk = [][]int{{1}, {3, 1}, {2, 2, 1, 3}}[(n/3)%3]
		}
		out := run(t)
		lastReads = t.Reads
		lastScript = lastScript[:0]
		for _, st := range t.Path {
			lastScript = append(lastScript, st.I)
		}
		res.Draws += int64(len(t.Path))
		if len(t.Path) > res.MaxDepth {
			res.MaxDepth = len(t.Path)
		}
		w := big.NewRat(1, 1)
		den := big.NewInt(1)
		for _, s := range t.Path {
			if s.N > 1 {
				den.Mul(den, big.NewInt(int64(s.N)))
			}
		}
		w.SetFrac(big.NewInt(1), den)
		if len(t.Path) >= 200000 {
			// a generation that keeps drawing: its subtree cannot be enumerated
			res.Anomalies = append(res.Anomalies, "runaway generation: more than 200000 draws in one call")
			rest := new(big.Rat).Sub(one, resolved)
			res.Unresolved.Set(rest)
			break
		}
		if t.ExtraRead {
			res.Anomalies = append(res.Anomalies, "extra read after scripted word at draw path "+pathString(t.Path))
		}
		if t.Cut {
			res.Cuts++
			res.Unresolved.Add(res.Unresolved, w)
		} else {
			res.Leaves++
			resolved.Add(resolved, w)
			if m, ok := res.Mass[out.Key]; ok {
				m.Add(m, w)
			} else {
				res.Mass[out.Key] = w
				res.Payload[out.Key] = out.Payload
			}
			if len(res.LastPaths) < 3 {
				res.LastPaths = append(res.LastPaths, append([]tape.Step(nil), t.Path...))
			}
		}
		// odometer: next script
		p := t.Path
		j := len(p) - 1
		for j >= 0 && (p[j].N == 0 || p[j].I+1 >= p[j].N) {
			j--
		}
		if j < 0 {
			break
		}
		script = make([]uint32, j+1)
		for k := 0; k < j; k++ {
			script[k] = p[k].I
		}
		script[j] = p[j].I + 1
	}
	res.Complete = res.Unresolved.Sign() == 0
	return res
}

func pathString(p []tape.Step) string {
	b := []byte{}
	for _, s := range p {
		b = append(b, []byte(big.NewInt(int64(s.I)).String()+"/"+big.NewInt(int64(s.N)).String()+" ")...)
	}
	return string(b)
}
