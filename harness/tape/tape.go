// Package tape is the scripted entropy source of the harness: it replaces
// crypto/rand.Reader inside a worker process, logs every read, and injects
// faults, short reads and scheduling points. With the verif hook
// spg.VerifOnDraw it can be scripted in draw indices instead of raw words.
package tape

import (
	"crypto/rand"
	"encoding/binary"
	"errors"
	"fmt"
	"io"
	"runtime"
	"sync/atomic"
	"time"

	spg "go.1password.io/spg"
)

// Last is a script entry meaning "the last alternative of whatever bound is
// announced" (n-1). Any other entry i is used as i mod n.
const Last = ^uint32(0)

// Errors the tape hands to the code under test.
var (
	ErrExhausted = errors.New("tape: script exhausted")
	ErrInjected  = errors.New("tape: injected source failure")
	ErrExtraRead = errors.New("tape: read beyond the scripted draw")
	ErrCut       = errors.New("tape: draw budget exceeded")
)

// ContinuedAfterFailure is the panic value raised when the code under test
// keeps reading long after the source started failing.
const ContinuedAfterFailure = "verif-tape: generation continued after source failure"

// HardDrawCap ends a generation that keeps drawing without end (a logical-step bound, not a clock).
const HardDrawCap = 400_000

// Runaway is the panic value raised when HardDrawCap is exceeded.
const Runaway = "verif-tape: runaway generation (more than 400000 draws in one call)"

// TempError is a source error that declares itself temporary / a timeout, like EAGAIN or EINTR do.
type TempError struct{ Msg string }

func (e TempError) Error() string   { return "tape: " + e.Msg }
func (e TempError) Temporary() bool { return true }
func (e TempError) Timeout() bool   { return true }

// Step is one announced bounded draw and the index the tape selected for it.
type Step struct {
	N uint32
	I uint32
}

// ReadRec is one logged Read call.
type ReadRec struct {
	Draw int  // ordinal of the announced draw this read belongs to (0 = none announced)
	Req  int  // bytes requested
	Got  int  // bytes delivered
	Err  bool // an error was returned
}

// Tape is an io.Reader standing in for the OS random source.
type Tape struct {
	// ---- configuration ----
	Script     []uint32      // index mode: draw indices
	Words      []uint32      // word mode (UseWords): raw 32-bit words, delivered big-endian
	UseWords   bool          //
	AutoExtend bool          // index mode: draws beyond the script take index 0 (explorer)
	MaxDraws   int           // > 0: the (MaxDraws+1)-th announced draw is cut (reads fail)
	RejectAt   map[int]bool  // draw ordinals (1-based) at which a word observed to be rejected is delivered first
	RejectRun  int           // how many rejected words in a row are delivered there (0 = one)
	Chunk      []int         // bytes per Read, cycled; nil = as many as requested
	FaultAt    int           // 1-based ordinal of the Read call that fails; 0 = none
	FaultBytes int           // bytes delivered by the failing read
	FaultStick bool          // every later read fails as well
	FaultErr   error         // the error the failing read returns (nil: ErrInjected)
	Yield      bool          // runtime.Gosched() inside every Read
	StallAt    int           // the StallAt-th read (1-based) is answered only after Stall has passed: a source that blocks
	Stall      time.Duration // (a stimulus only: nothing is ever judged by the clock)
	KeepLog    bool
	Aux        bool // an auxiliary execution (fault-aborted run between two leaves): its outcome is not a leaf

	// ---- observations ----
	Path            []Step
	Draws           int
	Reads           int
	BytesOut        int
	ReadsAfterFault int
	FaultHit        bool
	Exhausted       bool
	Cut             bool
	ExtraRead       bool
	ReadAhead       int // words handed out beyond the one scripted for a draw, before the next draw was announced
	readAhead       int // ... within the current draw
	Rejected        int // rejected words actually delivered
	Log             []ReadRec

	buf      []byte
	pendingN uint32
	failed   error
	wi       int
	ci       int
}

// Install makes the tape the process's random source and draw listener.
func (t *Tape) Install() {
	rand.Reader = t
	spg.VerifOnDraw = t.OnDraw
}

var osReader = rand.Reader

// Restore puts the operating system source back and removes the listener.
func Restore() {
	rand.Reader = osReader
	spg.VerifOnDraw = nil
}

// OSReader returns the original operating-system reader.
func OSReader() io.Reader { return osReader }

// OnDraw is called by the hook at the start of every bounded draw.
func (t *Tape) OnDraw(n uint32) {
	t.Draws++
	t.readAhead = 0
	if t.Draws > HardDrawCap {
		panic(Runaway)
	}
	if t.MaxDraws > 0 && t.Draws > t.MaxDraws {
		t.Cut = true
		t.failed = ErrCut
		t.buf = nil
		return
	}
	if t.UseWords {
		t.Path = append(t.Path, Step{N: n})
		return
	}
	if n == 0 {
		t.Path = append(t.Path, Step{N: 0})
		t.buf = nil
		return
	}
	k := len(t.Path)
	var idx uint32
	switch {
	case k < len(t.Script):
		idx = t.Script[k]
		if idx == Last {
			idx = n - 1
		} else {
			idx %= n
		}
	case t.AutoExtend:
		idx = 0
	default:
		t.Exhausted = true
		t.failed = ErrExhausted
		t.buf = nil
		t.pendingN = n
		return
	}
	t.Path = append(t.Path, Step{N: n, I: idx})
	t.buf = t.buf[:0]
	if t.RejectAt != nil && t.RejectAt[t.Draws] {
		if w, ok := RejectedWordFor(n); ok {
			run := t.RejectRun
			if run < 1 {
				run = 1
			}
			for k := 0; k < run; k++ {
				t.buf = binary.BigEndian.AppendUint32(t.buf, w)
				t.Rejected++
			}
		}
	}
	t.buf = binary.BigEndian.AppendUint32(t.buf, WordFor(n, idx))
}

// PendingBound is the bound announced by the draw at which the script ran out.
func (t *Tape) PendingBound() uint32 { return t.pendingN }

func (t *Tape) logRead(req, got int, err bool) {
	if t.KeepLog {
		t.Log = append(t.Log, ReadRec{Draw: t.Draws, Req: req, Got: got, Err: err})
	}
}

// ErrorsDelivered counts the reads any Tape answered with an error in this process: the harness compares it
// before and after a call to know that a panic or error of the library followed a failure of the source,
// whatever the library chose to say about it.
var ErrorsDelivered int64

// Read implements io.Reader.
func (t *Tape) Read(b []byte) (int, error) {
	n, err := t.read(b)
	if err != nil {
		atomic.AddInt64(&ErrorsDelivered, 1)
	}
	return n, err
}

func (t *Tape) read(b []byte) (int, error) {
	t.Reads++
	if t.StallAt > 0 && t.Reads == t.StallAt {
		time.Sleep(t.Stall)
	}
	if t.Yield {
		runtime.Gosched()
	}
	if t.failed != nil {
		t.ReadsAfterFault++
		if t.ReadsAfterFault > 1000 {
			panic(ContinuedAfterFailure)
		}
		t.logRead(len(b), 0, true)
		return 0, t.failed
	}
	if t.UseWords && len(t.buf) == 0 {
		if t.wi >= len(t.Words) {
			t.Exhausted = true
			t.failed = ErrExhausted
			t.logRead(len(b), 0, true)
			return 0, t.failed
		}
		t.buf = binary.BigEndian.AppendUint32(t.buf[:0], t.Words[t.wi])
		t.wi++
	}
	if len(t.buf) == 0 && !t.UseWords && len(t.Path) > 0 && t.Path[len(t.Path)-1].N > 0 && t.readAhead < 64 {
		// index mode, the word scripted for the announced draw is used up and the code reads on without
		// announcing another draw: a draw that fetches its raw words ahead (several at a time) is still the same
		// draw, so it is handed the same accepted word again (a bounded number of times)
		last := t.Path[len(t.Path)-1]
		t.readAhead++
		t.ReadAhead++
		t.buf = binary.BigEndian.AppendUint32(t.buf[:0], WordFor(last.N, last.I))
	}
	if len(t.buf) == 0 {
		// index mode: the code read without announcing a draw, or kept reading on
		// after the word scripted for the draw (it rejected it).
		t.ExtraRead = true
		t.failed = ErrExtraRead
		t.logRead(len(b), 0, true)
		return 0, t.failed
	}
	k := len(b)
	if len(t.Chunk) > 0 {
		c := t.Chunk[t.ci%len(t.Chunk)]
		t.ci++
		if c < k {
			k = c
		}
	}
	if t.FaultAt > 0 && t.Reads == t.FaultAt {
		t.FaultHit = true
		if t.FaultBytes < k {
			k = t.FaultBytes
		}
		if k > len(t.buf) {
			k = len(t.buf)
		}
		if k >= len(b) && k > 0 { // never deliver everything asked for together with the error
			k = len(b) - 1
		}
		copy(b, t.buf[:k])
		t.buf = t.buf[k:]
		t.BytesOut += k
		ferr := t.FaultErr
		if ferr == nil {
			ferr = ErrInjected
		}
		if t.FaultStick {
			t.failed = ferr
		}
		t.logRead(len(b), k, true)
		return k, ferr
	}
	if k > len(t.buf) {
		k = len(t.buf)
	}
	copy(b, t.buf[:k])
	t.buf = t.buf[k:]
	t.BytesOut += k
	t.logRead(len(b), k, false)
	return k, nil
}

// ---------------------------------------------------------------------------
// Learning which raw word the real bounded draw maps to a given index.

type ni struct{ n, i uint32 }

var wordCache = map[ni]uint32{}
var rejCache = map[uint32]int64{} // -1: none found

// LearnFailure is the panic value when no raw word mapping to (n,i) could be
// found by observation: the harness cannot script that draw.
type LearnFailure struct{ N, I uint32 }

func (l LearnFailure) Error() string {
	return fmt.Sprintf("verif-tape: no raw word observed to select index %d of bound %d", l.I, l.N)
}

type probe struct {
	w       []uint32
	k       int
	reads   int
	stallAt int
	stall   time.Duration
}

func (p *probe) Read(b []byte) (int, error) {
	p.reads++
	if p.stallAt > 0 && p.reads == p.stallAt {
		time.Sleep(p.stall)
	}
	// whole words for as much of b as they fill (a draw may fetch several raw words at a time)
	if p.k >= len(p.w) || len(b) < 4 {
		return 0, ErrExhausted
	}
	n := 0
	for n+4 <= len(b) && p.k < len(p.w) {
		binary.BigEndian.PutUint32(b[n:], p.w[p.k])
		p.k++
		n += 4
	}
	return n, nil
}

// Observe runs the real bounded draw on the given raw words with the hook
// listener removed. It returns the result, the number of reads made, and
// whether the call panicked.
func Observe(n uint32, words ...uint32) (res uint32, reads int, panicked bool) {
	saveR, saveH := rand.Reader, spg.VerifOnDraw
	p := &probe{w: words}
	rand.Reader = p
	spg.VerifOnDraw = nil
	defer func() {
		rand.Reader, spg.VerifOnDraw = saveR, saveH
		if r := recover(); r != nil {
			panicked = true
			reads = p.reads
		}
	}()
	res = spg.VerifRandomUint32n(n)
	return res, p.reads, false
}

// ObserveStalled is Observe with a source that blocks for d before it answers its at-th read.
func ObserveStalled(n uint32, at int, d time.Duration, words ...uint32) (res uint32, reads int, panicked bool) {
	saveR, saveH := rand.Reader, spg.VerifOnDraw
	p := &probe{w: words, stallAt: at, stall: d}
	rand.Reader = p
	spg.VerifOnDraw = nil
	defer func() {
		rand.Reader, spg.VerifOnDraw = saveR, saveH
		if r := recover(); r != nil {
			panicked = true
			reads = p.reads
		}
	}()
	res = spg.VerifRandomUint32n(n)
	return res, p.reads, false
}

// WordFor returns a raw word that the real bounded draw with bound n was
// observed to map to index i after exactly one read.
func WordFor(n, i uint32) uint32 {
	key := ni{n, i}
	if w, ok := wordCache[key]; ok {
		return w
	}
	try := func(w uint32) bool {
		r, reads, p := Observe(n, w)
		if !p && reads == 1 && r == i {
			wordCache[key] = w
			return true
		}
		return false
	}
	if try(i) {
		return i
	}
	for k := uint64(1); k <= 4; k++ {
		w := uint64(i) + k*uint64(n)
		if w <= 0xFFFFFFFF && try(uint32(w)) {
			return uint32(w)
		}
	}
	// a multiplicative mapping (index = word*n >> 32) puts index i in the middle of [i*2^32/n, (i+1)*2^32/n)
	if n > 0 {
		if mid := (uint64(2*uint64(i)+1) << 31) / uint64(n); mid <= 0xFFFFFFFF && try(uint32(mid)) {
			return uint32(mid)
		}
	}
	// byte-swapped and shifted guesses, then a deterministic scan
	sw := i<<24 | (i&0xFF00)<<8 | (i>>8)&0xFF00 | i>>24
	if try(sw) {
		return sw
	}
	x := uint64(0x9E3779B97F4A7C15) ^ uint64(n)<<32 ^ uint64(i)
	limit := 64 * int(n)
	if limit > 1<<22 || limit <= 0 {
		limit = 1 << 22
	}
	for k := 0; k < limit; k++ {
		x += 0x9E3779B97F4A7C15
		z := x
		z = (z ^ (z >> 30)) * 0xBF58476D1CE4E5B9
		z = (z ^ (z >> 27)) * 0x94D049BB133111EB
		w := uint32((z ^ (z >> 31)) >> 32)
		if try(w) {
			return w
		}
	}
	panic(LearnFailure{n, i})
}

var accCache = map[uint32]int64{}

// AcceptedWordFor returns a raw word the real bounded draw with bound n was observed to accept at once (one
// read). More than half of all words are, so a handful of candidates suffices; which ones are accepted is
// the implementation's business.
func AcceptedWordFor(n uint32) (uint32, bool) {
	if v, ok := accCache[n]; ok {
		return uint32(v), v >= 0
	}
	for _, w := range []uint32{0, 1, 0x80000000, 0x12345678, 0x7FFFFFFF, 0x40000001, 0xC0000003, 0x2468ACE1, 0x9E3779B9, 0x00FF00FF} {
		_, reads, p := Observe(n, w)
		if !p && reads == 1 {
			accCache[n] = int64(w)
			return w, true
		}
	}
	accCache[n] = -1
	return 0, false
}

// RejectedWordFor returns a raw word the real bounded draw was observed to
// reject (it read a second word), if one was found near the top of the range.
func RejectedWordFor(n uint32) (uint32, bool) {
	if v, ok := rejCache[n]; ok {
		return uint32(v), v >= 0
	}
	acc, okAcc := AcceptedWordFor(n)
	if !okAcc {
		rejCache[n] = -1
		return 0, false
	}
	cands := []uint32{0xFFFFFFFF, 0xFFFFFFFE, 0xFFFFFFF0, 0xFFFFFF00, 0, 1, 2}
	if n > 1 { // the first words of an index's interval under a multiplicative mapping
		cands = append(cands, uint32((uint64(1)<<32)/uint64(n))+1, uint32((uint64(1)<<32)/uint64(n)))
	}
	for _, w := range cands {
		_, reads, p := Observe(n, w, acc, acc, acc, acc, acc, acc, acc, acc) // a redraw may fetch several words at a time
		if !p && reads >= 2 {
			rejCache[n] = int64(w)
			return w, true
		}
	}
	rejCache[n] = -1
	return 0, false
}

// chunkProbe delivers scripted words at most chunk bytes per Read (always
// without error): a legal io.Reader behaviour the OS source never shows.
type chunkProbe struct {
	buf   []byte
	chunk int
	reads int
	out   int
}

func (p *chunkProbe) Read(b []byte) (int, error) {
	p.reads++
	if len(p.buf) == 0 {
		return 0, ErrExhausted
	}
	k := len(b)
	if k > p.chunk {
		k = p.chunk
	}
	if k > len(p.buf) {
		k = len(p.buf)
	}
	copy(b, p.buf[:k])
	p.buf = p.buf[k:]
	p.out += k
	return k, nil
}

// ObserveChunked runs the real bounded draw with the raw words delivered in
// pieces of at most chunk bytes. It returns the result and the bytes consumed.
func ObserveChunked(n uint32, chunk int, words ...uint32) (res uint32, bytes int, panicked bool) {
	saveR, saveH := rand.Reader, spg.VerifOnDraw
	p := &chunkProbe{chunk: chunk}
	for _, w := range words {
		p.buf = binary.BigEndian.AppendUint32(p.buf, w)
	}
	rand.Reader = p
	spg.VerifOnDraw = nil
	defer func() {
		rand.Reader, spg.VerifOnDraw = saveR, saveH
		if r := recover(); r != nil {
			panicked = true
			bytes = p.out
		}
	}()
	res = spg.VerifRandomUint32n(n)
	return res, p.out, false
}

// interposeProbe serves the words of an outer draw, but before answering the
// outer draw's first read it lets a complete inner bounded draw (another bound,
// its own word) run to completion - the single-goroutine equivalent of another
// goroutine drawing while this one waits in the random source.
type interposeProbe struct {
	outer  *probe
	innerN uint32
	innerW uint32
	done   bool
}

func (p *interposeProbe) Read(b []byte) (int, error) {
	if !p.done {
		p.done = true
		save := rand.Reader
		rand.Reader = &probe{w: []uint32{p.innerW, 0, 0}}
		func() {
			defer func() { recover() }()
			spg.VerifRandomUint32n(p.innerN)
		}()
		rand.Reader = save
	}
	return p.outer.Read(b)
}

// ObserveInterposed is Observe with an inner draw (bound innerN, first word
// innerW) interposed at the outer draw's first read of the source.
func ObserveInterposed(n uint32, innerN, innerW uint32, words ...uint32) (res uint32, reads int, panicked bool) {
	saveR, saveH := rand.Reader, spg.VerifOnDraw
	o := &probe{w: words}
	rand.Reader = &interposeProbe{outer: o, innerN: innerN, innerW: innerW}
	spg.VerifOnDraw = nil
	defer func() {
		rand.Reader, spg.VerifOnDraw = saveR, saveH
		if r := recover(); r != nil {
			panicked = true
			reads = o.reads
		}
	}()
	res = spg.VerifRandomUint32n(n)
	return res, o.reads, false
}
