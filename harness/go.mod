module verifharness

go 1.23

require go.1password.io/spg v0.0.0

require github.com/deckarep/golang-set v1.7.1 // indirect

replace go.1password.io/spg => /repo
