// Package gen holds the seed-driven pseudo-random source used by every
// workload generator of the harness. It is a splitmix64 so that case lists are
// a function of (VERIF_SEED, property, case index) only and do not change with
// the Go version.
package gen

import (
	"fmt"
	"hash/fnv"
)

// R is a small deterministic PRNG (splitmix64).
type R struct{ s uint64 }

// New derives a generator from a seed and any number of labels.
func New(seed uint64, parts ...interface{}) *R {
	h := fnv.New64a()
	fmt.Fprintf(h, "%d", seed)
	for _, p := range parts {
		fmt.Fprintf(h, "|%v", p)
	}
	r := &R{s: h.Sum64() ^ (seed * 0x9E3779B97F4A7C15)}
	r.U64()
	return r
}

// U64 returns the next 64 pseudo-random bits.
func (r *R) U64() uint64 {
	r.s += 0x9E3779B97F4A7C15
	z := r.s
	z = (z ^ (z >> 30)) * 0xBF58476D1CE4E5B9
	z = (z ^ (z >> 27)) * 0x94D049BB133111EB
	return z ^ (z >> 31)
}

// U32 returns 32 pseudo-random bits.
func (r *R) U32() uint32 { return uint32(r.U64() >> 32) }

// Intn returns a value in [0,n). n must be > 0. (The tiny modulo bias is
// irrelevant for workload generation.)
func (r *R) Intn(n int) int {
	if n <= 0 {
		panic("gen.Intn: n <= 0")
	}
	return int(r.U64() % uint64(n))
}

// Range returns a value in [lo,hi].
func (r *R) Range(lo, hi int) int { return lo + r.Intn(hi-lo+1) }

// Bool returns a fair coin.
func (r *R) Bool() bool { return r.U64()&1 == 1 }

// Chance returns true with probability num/den.
func (r *R) Chance(num, den int) bool { return r.Intn(den) < num }

// Pick returns one of the strings.
func (r *R) Pick(ss []string) string { return ss[r.Intn(len(ss))] }

// Weighted returns an index drawn with the given integer weights.
func (r *R) Weighted(w []int) int {
	t := 0
	for _, x := range w {
		t += x
	}
	k := r.Intn(t)
	for i, x := range w {
		if k < x {
			return i
		}
		k -= x
	}
	return len(w) - 1
}

// Perm returns a permutation of 0..n-1.
func (r *R) Perm(n int) []int {
	p := make([]int, n)
	for i := range p {
		p[i] = i
	}
	for i := n - 1; i > 0; i-- {
		j := r.Intn(i + 1)
		p[i], p[j] = p[j], p[i]
	}
	return p
}

// ShuffleStrings returns a shuffled copy.
func (r *R) ShuffleStrings(ss []string) []string {
	out := make([]string, len(ss))
	for i, j := range r.Perm(len(ss)) {
		out[i] = ss[j]
	}
	return out
}

// Hash64 is a stable hash used for distinctness keys.
func Hash64(s string) uint64 {
	h := fnv.New64a()
	h.Write([]byte(s))
	return h.Sum64()
}
