#!/bin/bash
# tools/benign.sh [ids...] : every property-preserving change of seeded/_benign against the quick checks (all 18 by default)
cd "$(dirname "$0")/.."
IDS="${@:-C01 C02 C03 C04 C05 C06 C07 C08 C09 C10 C11 C12 C13 C14 C15 C16 C17 C18}"
for p in seeded/_benign/*.diff; do
  echo "== $p"
  tools/mutant.sh "$p" $IDS 2>&1 | grep -v "^WARNING" | cut -c1-300
done
