#!/bin/bash
# tools/runall.sh [quick|thorough] [ids...] : runs checks sequentially, prints one line each, validates evidence
TIER="${1:-quick}"; shift
IDS="$@"; [ -z "$IDS" ] && IDS="C01 C02 C03 C04 C05 C06 C07 C08 C09 C10 C11 C12 C13 C14 C15 C16 C17 C18"
cd "$(dirname "$0")/.."
for id in $IDS; do
  s=$(date +%s)
  out=$(./check $id $TIER 2>&1); rc=$?
  e=$(( $(date +%s) - s ))
  v=$(python3-vt -c "
import json,jsonschema,sys
try:
    jsonschema.validate(json.load(open('evidence/$id.json')),json.load(open('/root/.vp/EVIDENCE.schema.json'))); print('evidence-ok')
except Exception as ex: print('EVIDENCE-INVALID', str(ex)[:200])")
  echo "$id rc=$rc ${e}s $v $(echo "$out" | grep -c '^VIOLATION') violations $(echo "$out" | grep -c '^KNOWN-FINDING') known $(echo "$out" | grep -c '^INCONCLUSIVE') inconclusive"
  if [ $rc -ne 0 ]; then echo "$out" | grep -v '^SUMMARY\|counters=' | head -8 | cut -c1-400; fi
done
