#!/bin/bash
# tools/matrix.sh : every seeded defect against every quick check (C01 only for util.go changes); prints one row per defect
cd "$(dirname "$0")/.."
ALL="C02 C03 C04 C05 C06 C07 C08 C09 C10 C11 C12 C13 C14 C15 C16 C17 C18"
for d in seeded/*/; do
  id=$(basename $d)
  checks="$ALL"
  grep -q 'util.go' $d/patch.diff && checks="C01 $ALL"
  row=$(tools/mutant.sh $d/patch.diff $checks 2>&1 | awk '/rc=1/ {printf "%s ", $1} /MUTANT|PATCH/ {printf "[%s] ", $0}')
  echo "$id : $row"
done
