#!/usr/bin/env python3
"""Regenerates /verif/MANIFEST.json from the table below (run after adding a check)."""
import json, os, subprocess
ROOT = os.path.dirname(os.path.dirname(os.path.abspath(__file__)))

# id -> (category, technique, level text, level note, design ref)
CHECKS = {
 "C01": ("exploration", "exhaustive counting monitor: all 2^32 raw words through the real bounded draw per panel bound (scripted crypto/rand.Reader), plus boundary-probe scout with escalation",
         "For each bound of a panel all 2^32 raw words are fed to the real randomUint32n and counted per alternative (equal counts, >half accepted, results < n); thousands of further bounds are probed at boundary words, with 1-4 rejected words in a row, with the word delivered in 1-3 byte chunks and with a complete draw of another bound interposed while the first waits in the source; model deviations are escalated to an exhaustive count; complete decision trees of small recipes of both kinds check the generator-level clause (every pick of one of n alternatives). Exhaustive in the raw word, sampled in the bound.",
         "Trusts Go 1.23's crypto/rand.Read = io.ReadFull(rand.Reader) (GOTOOLCHAIN=local) and the verif wrapper VerifRandomUint32n being a plain call of randomUint32n.", "4/C01"),
 "C02": ("exploration", "execution-tree explorer over the real Generate under a scripted entropy tape; exact output masses vs brute-force reference set; slice monitors",
         "Exact output distribution of the real CharRecipe.Generate observed over the complete decision tree of draw indices for hundreds (quick) / thousands (thorough) of small hostile recipes, compared with an independent enumeration of the valid strings; realistic recipes are covered by slices that force every alphabet index at every position. Sampled in the recipe, exhaustive in the random stream within each explored cell.",
         "Modulo C01 (each bounded draw uniform). Trusts the verif hook that sorts the production alphabet in place, the tape's learned index->word table (learned by observing the real bounded draw), and the reference semantics in harness/oracle.", "4/C02"),
 "C03": ("exploration", "online assertion of every generated password and Alphabet() against a reference recipe semantics; forced-index scripts, tree leaves, OS randomness",
         "Every password from every leaf of the small-recipe trees, from class-flag triples (2048 quick / all 32768 thorough) driven with scripts forcing every alphabet index, and from OS randomness is checked against reference semantics; Alphabet() compared with the reference and with the characters actually observed.",
         "Reference semantics from the field documentation (harness/oracle). Characters are code points.", "4/C03"),
 "C04": ("exploration", "execution-tree explorer over the real WLRecipe.Generate; exact joint distribution vs documented product law; bijection slices through large lists",
         "Exact joint distribution of tokens over complete decision trees of small wordlist recipes compared with the product of uniform word draws, the scheme's capitalisation law and the separator function's measured distribution; large lists (AgileWords, AgileSyllables, 1000-20000 words) are slice-checked: every word index at every position.",
         "Modulo C01; premise of the property (no two kept words share a title form) enforced by the generator/filter.", "4/C04"),
 "C05": ("exploration", "online structural assertion on every wordlist password (tree leaves, forced boundary scripts, OS randomness) with recorded separator-function returns",
         "Tokens/String/Atoms/Separators of every observed wordlist password (lengths to 80, both separator fields set, unknown scheme strings, failing separator recipes) are checked against kept words, scheme positions and the separators the function actually returned; passwords returned earlier are re-inspected after further generations from the same list.",
         "Separator returns recorded by a wrapper around the real function; strings.Title as the title-casing. One open known finding (lists containing the empty string).", "4/C05"),
 "C06": ("exploration", "execution-tree explorer: exact probability of every output vs 2^-Entropy(); Password.Entropy compared bitwise on every leaf",
         "For hundreds/thousands of small recipes of both kinds the exact mass of every output is compared with the reported entropy (bound, and equality with the min-entropy on resolved trees).",
         "Modulo C01; tolerance 4 float32 ulps + 1e-6 bits. One open known finding (lists containing the empty string).", "4/C06"),
 "C07": ("exploration", "reference-model monitor: arbitrary-precision inclusion-exclusion (cross-checked by brute force) vs the exact integer (hook) and Entropy(), five calls each",
         "Tens of thousands (quick) / hundreds of thousands (thorough) of generated recipes in every overlap pattern with 0-8 required sets and lengths to 4096 are compared exactly (integer count) and to float32 precision (entropy).",
         "Trusts the verif hook VerifCount (buildCharacterList + n()) and math/big.", "4/C07"),
 "C08": ("exploration", "reference-formula monitor plus determinism monitor over 64 in-process constructions/permutations and 4 fresh child processes per input",
         "Entropy() of generated wordlist recipes (lengths to 3000; lists holding the empty string beside capitalisable words) is compared with the documented formula and must be bit-identical over repeated constructions, permutations, repetitions and processes; recipes sharing one *WordList with different separator functions are evaluated in both orders, also after an excursion of the retry knobs during which every separator recipe is refused.",
         "Separator entropy taken as what the separator function declares (observed).", "4/C08"),
 "C10": ("exploration", "reference-normalisation monitor; kept words read out through Generate with index scripts; before/after snapshot of the caller's slice; 64 constructions per input",
         "Thousands of hostile inputs (twins, chains, digraphs, Georgian, long s, inner word boundaries, caseless, empty string, duplicates, inputs concatenating to the same bytes) x 64 constructions/permutations each, plus both shipped lists, compared with the reference normalisation; the caller's slice is overwritten afterwards and the list read out again (no aliasing).",
         "strings.Title as the title-casing; list order read out through the public API.", "4/C10"),
 "C11": ("exploration", "round-trip monitor MakeIndices -> Tokenize on generated and Tokenize-constructed token sequences vs the documented size rule",
         "Tens of thousands of passwords from hostile character and wordlist recipes (non-ASCII, 254/255/256-character words, byte length > 255 with <= 255 characters, passwords beyond 2^16 bytes, characters and tokens) and sequences only Tokenize can construct are round-tripped and their index size checked.",
         "Token length counted in characters.", "4/C11"),
 "C12": ("exploration", "total-function monitor: Tokenize on ~1M (quick) / 20M (thorough) hostile (string, index, entropy) triples vs a decoder specification; panics recovered and judged",
         "Every index length 0..12 in both parities, every kind byte, biased bodies, mutated valid indices, invalid UTF-8 and long strings; each result compared with the decoder specification; the same monitor under 8 concurrent callers.",
         "Decoder specification in harness/oracle (RefTokenize).", "4/C12"),
 "C13": ("exploration", "reference-model monitor for refusal (exact rational success probability vs threshold), scripted all-attempts-fail and recover-after-k-failures streams, malformed recipe shapes",
         "Thousands of recipes around the refusal threshold under default and modified knobs: refusal and acceptance directions on scripted streams, SuccessProbability() vs the exact fraction, attempt budget, no panic on any malformed recipe shape of either kind nor on an undefined capitalisation scheme.",
         "1% band around the threshold and recipes with an emptied required set not judged for must-not-refuse.", "4/C13"),
 "C09": ("fault_enumeration", "fault enumeration on the scripted entropy tape: every read position x every short delivery (0-3 bytes) x {once, from then on}; re-chunked reads; determinism replays (goroutine, fresh processes); strace syscall monitor with injected getrandom/urandom failure",
         "For every sampled generation of both recipe kinds a failure is injected at every individual read of the random source with 0..3 bytes delivered (once, and sticky); no password may be returned and reading must stop. Chunked delivery, tape-determinism across goroutines and fresh processes, support over complete cells, and the opgen binary under strace (kernel-delivered bytes against the entropy floor of the output, all-zero entropy must give one choice repeated, k-th kernel entropy read failed) complete the picture.",
         "Go 1.23 semantics of crypto/rand.Read (io.ReadFull over the replaceable rand.Reader), pinned by GOTOOLCHAIN=local. strace when= is per thread: only runs whose log shows the injected failure and blocked fallback are judged.", "4/C09"),
 "C14": ("exploration", "Go race detector (-race build of the harness) over stress scenarios with injected scheduling points at every entropy read; concurrent results validated by the recipe oracles; report blocks counted and de-duplicated by spg entry-point pair",
         "8 sharing scenarios x G in {4,16,64} goroutines x 5/120 repetitions x 6 rounds on freshly built shared values (no warm-up: first uses happen under concurrency; RequireSets with spare capacity and shared backing arrays) under the race detector; zero reports with spg frames, concurrent callers agree among themselves and with single-threaded references computed afterwards, every concurrent password valid (structure, capitalisation positions, separators).",
         "Covers the interleavings the runs produced (happens-before race detection), not all schedules. GORACE halt_on_error=0 with log files counted by the parent.", "4/C14"),
 "C15": ("exploration", "history monitor: deep before/after snapshots of the whole pool around every call (frame), and replay of every call on a fresh recipe in a fresh process (started from a different environment) with the same scripted stream (history independence); environment variables the library reads are discovered with the Go runtime's testlog monitor",
         "Thousands of generated histories of calls, caller-side field updates, knob updates, process-environment changes, calls cut short by a failing source and calls repeated with a blocking source over pools of recipes (incl. field-regrouped siblings, class overlaps, failing separator recipes) sharing lists, separator functions and RequireSets backing arrays; returned passwords and returned errors re-inspected at the end; the bytes each call consumes are part of its result; a call that never returns is reported when its goroutine is seen blocked inside the library.",
         "The implementation on the trivial history is the reference; wordlist results compared as choice records.", "4/C15"),
 "C16": ("exploration", "complete enumeration of the finite configuration space with reference tables; execution-tree explorer for the exact distribution of each separator preset; element-wise comparison of shipped lists with testdata files",
         "Exhaustive: every exported flag/union, all 32 flag subsets, constructor defaults (and independence of two constructor calls), retry-budget defaults as values and as behaviour (refusal border for set-, flag- and mixed-form requirements; exactly 200 attempts; second attempt at any length), all 7 presets (every output and its exact probability, also after a knob excursion), all 28454 list entries (after the lists were used through NewWordList).",
         "Preset distributions modulo C01. Documented class strings written out in harness/oracle.", "4/C16"),
 "C17": ("exploration", "process-level monitor of the built opgen binary: exit status / stdout / stderr vs an independent flag-word mapping; exact DP membership of the printed line in the recipe's language; library entropy comparison",
         "Thousands of invocations over the documented flag words (both subcommands, all separators, schemes, lists incl. hostile --file lists), the invalid forms and refused recipes.",
         "Flag-word tables from the usage text. Undocumented words, unreadable files and --entropy on refused recipes are outside the statement.", "4/C17"),
 "C18": ("exploration", "output-capture monitor: fd 1/2 (and the logger) redirected around batches of library calls and searched for every secret of the batch (canary alphabets/words: any fragment; realistic: whole passwords and rejected candidates) raw, quoted, hex and base64",
         "Thousands of generations incl. refused, failing, fault-aborted and repeated-stream ones, lowered retry knobs, a hostile process environment (locale and debugging variables plus every variable the library is observed to read), lists with the empty and with over-long words, the token-index API called on every password, and the diagnostic-printing paths; rejected candidates reconstructed from the tape's draw path; canary alphabets are secret as a whole and canary words down to 8-character windows.",
         "The library can only write through fd 1, fd 2 or the standard logger; capture shown non-empty in the evidence.", "4/C18"),
}
PENDING = {}
ALL = ["C%02d" % i for i in range(1, 19)]

def main():
    hooks_commits = subprocess.run(["git", "-C", "/repo", "log", "--format=%H", "--grep=^verif hooks"], capture_output=True, text=True).stdout.split()
    checks = []
    for pid in ALL:
        if pid not in CHECKS:
            continue
        cat, tech, text, note, ref = CHECKS[pid]
        checks.append({
            "property_id": pid,
            "quick_cmd": "./check %s quick" % pid,
            "thorough_cmd": "./check %s thorough" % pid,
            "evidence_file": "evidence/%s.json" % pid,
            "replay_cmd_template": "./check %s --replay {path}" % pid,
            "engine": "vcheck",
            "level_claimed": {"category": cat, "text": text, "design_ref": "DESIGN.md section " + ref},
            "level_note": note,
            "technique": tech,
        })
    na = [{"property_id": p, "reason": PENDING.get(p, "check not built yet (work in progress; see DESIGN.md section 4 for the planned monitor)")} for p in ALL if p not in CHECKS]
    m = {
        "version": 1,
        "setup_cmd": "./setup.sh",
        "hooks": {
            "guard": "verif",
            "enable": "go build -tags verif (harness module /verif/harness replaces go.1password.io/spg with /repo, so every check compiles /repo's current working tree with the hooks on)",
            "baseline_off_cmd": "cd /repo && GOFLAGS=-mod=mod GOPROXY=off GOSUMDB=off GOTOOLCHAIN=local go test -json -vet=off -count=1 -timeout 25m ./...",
            "source_commits": hooks_commits,
            "add_only": True,
        },
        "engines": [{"name": "vcheck", "path": "harness/cmd/vcheck", "serves_properties": sorted(CHECKS.keys()),
                     "kind_free_text": "Go parent/worker binary: scripted entropy tape replacing crypto/rand.Reader, execution-tree explorer, reference oracles, online and offline monitors; race-detector build for C14; strace-based process monitors for C09/C17"}],
        "checks": checks,
        "not_applicable": na,
        "notes": "Runtime monitoring only. ./check <id> quick|thorough rebuilds the harness against /repo's working tree on every call. Exit 0 held on everything observed, 1 VIOLATION, 2 INCONCLUSIVE. Known findings: known_findings.json.",
    }
    json.dump(m, open(os.path.join(ROOT, "MANIFEST.json"), "w"), indent=1)
    print("wrote MANIFEST.json with", len(checks), "checks;", len(na), "not_applicable")

if __name__ == "__main__":
    main()
