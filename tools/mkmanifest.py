#!/usr/bin/env python3
"""Regenerates /verif/MANIFEST.json from the table below (run after adding a check)."""
import json, os, subprocess
ROOT = os.path.dirname(os.path.dirname(os.path.abspath(__file__)))

# id -> (category, technique, level text, level note, design ref)
CHECKS = {
 "C02": ("exploration", "execution-tree explorer over the real Generate under a scripted entropy tape; exact output masses vs brute-force reference set; slice monitors",
         "Exact output distribution of the real CharRecipe.Generate observed over the complete decision tree of draw indices for hundreds (quick) / thousands (thorough) of small hostile recipes, compared with an independent enumeration of the valid strings; realistic recipes are covered by slices that force every alphabet index at every position. Sampled in the recipe, exhaustive in the random stream within each explored cell.",
         "Modulo C01 (each bounded draw uniform). Trusts the verif hook that sorts the production alphabet in place, the tape's learned index->word table (learned by observing the real bounded draw), and the reference semantics in harness/oracle.", "4/C02"),
}
PENDING = {}
ALL = ["C%02d" % i for i in range(1, 19)]

def main():
    hooks_commits = subprocess.run(["git", "-C", "/repo", "log", "--format=%H", "--grep=^verif hooks"], capture_output=True, text=True).stdout.split()
    checks = []
    for pid in ALL:
        if pid not in CHECKS:
            continue
        cat, tech, text, note, ref = CHECKS[pid]
        checks.append({
            "property_id": pid,
            "quick_cmd": "./check %s quick" % pid,
            "thorough_cmd": "./check %s thorough" % pid,
            "evidence_file": "evidence/%s.json" % pid,
            "replay_cmd_template": "./check %s --replay {path}" % pid,
            "engine": "vcheck",
            "level_claimed": {"category": cat, "text": text, "design_ref": "DESIGN.md section " + ref},
            "level_note": note,
            "technique": tech,
        })
    na = [{"property_id": p, "reason": PENDING.get(p, "check not built yet (work in progress; see DESIGN.md section 4 for the planned monitor)")} for p in ALL if p not in CHECKS]
    m = {
        "version": 1,
        "setup_cmd": "./setup.sh",
        "hooks": {
            "guard": "verif",
            "enable": "go build -tags verif (harness module /verif/harness replaces go.1password.io/spg with /repo, so every check compiles /repo's current working tree with the hooks on)",
            "baseline_off_cmd": "cd /repo && GOFLAGS=-mod=mod GOPROXY=off GOSUMDB=off GOTOOLCHAIN=local go test -json -vet=off -count=1 -timeout 25m ./...",
            "source_commits": hooks_commits,
            "add_only": True,
        },
        "engines": [{"name": "vcheck", "path": "harness/cmd/vcheck", "serves_properties": sorted(CHECKS.keys()),
                     "kind_free_text": "Go parent/worker binary: scripted entropy tape replacing crypto/rand.Reader, execution-tree explorer, reference oracles, online and offline monitors; race-detector build for C14; strace-based process monitors for C09/C17"}],
        "checks": checks,
        "not_applicable": na,
        "notes": "Runtime monitoring only. ./check <id> quick|thorough rebuilds the harness against /repo's working tree on every call. Exit 0 held on everything observed, 1 VIOLATION, 2 INCONCLUSIVE. Known findings: known_findings.json.",
    }
    json.dump(m, open(os.path.join(ROOT, "MANIFEST.json"), "w"), indent=1)
    print("wrote MANIFEST.json with", len(checks), "checks;", len(na), "not_applicable")

if __name__ == "__main__":
    main()
