#!/bin/bash
# tools/mutant.sh <patch.diff> [tier] <ids...>
# Applies a patch to a scratch worktree of /repo (never to /repo), confirms it builds and passes the repo's
# suite with hooks off, runs the named checks against it, reports which fire, and removes the worktree.
export GOFLAGS=-mod=mod GOPROXY=off GOSUMDB=off GOTOOLCHAIN=local
PATCH="$(readlink -f "$1")"; shift
TIER=quick; case "$1" in quick|thorough) TIER=$1; shift;; esac
IDS="$@"
ROOT="$(cd "$(dirname "$0")/.." && pwd)"
WT="$(mktemp -d /tmp/mw-XXXXXX)"; rmdir "$WT"
git -C /repo worktree add -q --detach "$WT" HEAD || exit 2
cleanup() { git -C /repo worktree remove --force "$WT" 2>/dev/null; rm -rf "$WT"; }
trap cleanup EXIT
if ! git -C "$WT" apply "$PATCH"; then echo "PATCH-DOES-NOT-APPLY $PATCH"; exit 2; fi
if ! (cd "$WT" && go build ./... && go build -tags verif ./...) >"$WT/.build.log" 2>&1; then echo "MUTANT-DOES-NOT-BUILD"; head -5 "$WT/.build.log"; exit 2; fi
fails=0
for i in 1 2; do (cd "$WT" && go test -vet=off -count=1 ./... >"$WT/.test.log" 2>&1) || fails=$((fails+1)); done
if [ $fails -ne 0 ]; then echo "MUTANT-FAILS-SUITE ($fails/2 runs)"; grep -m5 -- "--- FAIL\|FAIL" "$WT/.test.log"; fi
for id in $IDS; do
  out=$(VERIF_REPO="$WT" "$ROOT/check" $id $TIER 2>&1); rc=$?
  cls=$(echo "$out" | grep -A1 '^VIOLATION' | grep 'class=' | sed 's/ occurrences.*//; s/^ *//' | tr '\n' ' ')
  echo "  $id rc=$rc $(echo "$out" | grep -c '^VIOLATION') violation-lines $cls $(echo "$out" | grep '^INCONCLUSIVE' | head -1 | cut -c1-200)"
done
