#!/bin/bash
# tools/owncheck.sh [Cxx...] : every seeded defect (of the named properties; default all) against the check named in
# its meta.json (detected_by.check); one line each
cd "$(dirname "$0")/.."
for d in seeded/*/; do
  id=$(basename $d)
  if [ $# -gt 0 ]; then case " $* " in *" ${id%%-*} "*) ;; *) continue;; esac; fi
  [ -f $d/meta.json ] || continue
  chk=$(python3 -c "import json;print(json.load(open('$d/meta.json'))['detected_by']['check'].split()[1])")
  out=$(tools/mutant.sh $d/patch.diff $chk 2>&1 | grep -v warning)
  rc=$(echo "$out" | grep -o "rc=[0-9]*" | head -1)
  cls=$(echo "$out" | grep -o "class=[^ ]*" | head -3 | tr '\n' ' ')
  echo "$id $chk $rc $cls $(echo "$out" | grep -o 'MUTANT[A-Z-]*\|PATCH[A-Z-]*' | head -1)"
done
