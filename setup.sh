#!/bin/bash
# Builds the harness once (warms the Go build cache) from files on disk only. Checks rebuild anyway.
set -e
export GOFLAGS=-mod=mod GOPROXY=off GOSUMDB=off GOTOOLCHAIN=local
ROOT="$(cd "$(dirname "$0")" && pwd)"
cp /repo/go.sum "$ROOT/harness/go.sum"
S="$(mktemp -d "${TMPDIR:-/tmp}/vsetup-XXXXXX")"
trap 'rm -rf "$S"' EXIT
cd "$ROOT/harness"
go build -tags verif -o "$S/vcheck" ./cmd/vcheck
go build -tags verif -race -o "$S/vcheck-race" ./cmd/vcheck
(cd /repo && go build -o "$S/opgen" ./cmd/opgen)
mkdir -p "$ROOT/evidence" "$ROOT/replays"
echo "setup ok"
